"""C01 — parse -> pretty-print -> parse preserves content (and the printed text is accepted).

Per skeleton (hand-written structural ones, and schema-generated ones: every object type with all of its simple
keyword slots, string slots as symbolic holes):
  * base case: the witness text through the public API with the real scanner end to end
    (loads, dumps, loads, dumps: same content, same text);
  * C01-RT (symbolic): the real scanner runs on the skeleton, hole tokens get symbolic values of their lexical class,
    the real interactive parse loop + LALR tables + transformer + printer run under CrossHair: the printed lines equal the
    witness rendering with the symbolic values substituted (uniformity), the printed text (its real token stream, holes
    substituted) parses back to the same content, and formatting it again gives the same lines (C04).
The lexical-class lemmas that justify substituting token values (E-LEX) are C05's obligations.
"""
from engine.core import Ob
from engine import slots as S
from checks.tsp_common import Hole, rt_source

SK = {}

SK["layer"] = ('''LAYER
  NAME "H01" # c1
  TYPE POLYGON
  DATA 'H02'
  METADATA
    "k1" "H03"
    'wms_title' 'H04'
  END
  VALIDATION
    "qstring" "H05"
  END
  CLASS
    NAME 'H06'
    EXPRESSION "H07"
    STYLE
      WIDTH 2
      COLOR 1 2 3
      SYMBOL "H08"
    END
    LABEL
      TEXT "H09"
      SIZE 8
    END
  END
END''', [Hole("H01"), Hole("H02", quote="'"), Hole("H03"), Hole("H04", quote="'"), Hole("H05"), Hole("H06", quote="'"),
         Hole("H07", "xstr"), Hole("H08", "xstr"), Hole("H09", "xstr")])

SK["map"] = ('''MAP
  NAME "H01"
  EXTENT -180 -90 180 90.5
  SIZE 800 600
  IMAGECOLOR 255 255 255
  FONTSET 'H02'
  CONFIG "MS_ERRORFILE" "H03"
  PROJECTION
    "H04"
    "no_defs"
  END
  WEB
    IMAGEPATH "H05"
    METADATA
      "wms_title" "H06"
      'wms_srs' "EPSG:4326"
    END
  END
  OUTPUTFORMAT
    NAME "png"
    DRIVER "AGG/PNG"
    FORMATOPTION "H07"
    FORMATOPTION "QUALITY=75"
  END
  LEGEND
    STATUS ON
    LABEL
      FONT "H08"
      SIZE 8
    END
  END
  SYMBOL
    NAME "H09"
    TYPE ELLIPSE
    POINTS 1 1 END
  END
  LAYER
    NAME "l1"
    TYPE POINT
    PROCESSING "H10"
    FEATURE
      POINTS 1 1 2 2 END
      POINTS 3 3 END
      TEXT "H11"
    END
  END
  LAYER
    NAME "l2"
    TYPE LINE
    CONNECTIONOPTIONS
      "FLATTEN_NESTED_ATTRIBUTES" "H12"
    END
  END
END''', [Hole("H01"), Hole("H02", quote="'"), Hole("H03"), Hole("H04"), Hole("H05"), Hole("H06"), Hole("H07"), Hole("H08", "xstr"),
         Hole("H09"), Hole("H10"), Hole("H11", "xstr"), Hole("H12")])

SK["expr"] = ('''LAYER
  NAME "x"
  TYPE POINT
  FILTER ( [A01] = "H02" AND [A03] > 5 )
  LABELITEM "H04"
  CLASS
    EXPRESSION ( ( "[item]" = 'H06' ) OR NOT ( [A07] IN "H08" ) )
    TEXT ( tostring( [A09], "H10" ) )
    STYLE
      SIZE [A11]
      COLOR [A12]
      ANGLE [A13]
      OFFSET [A14] 2
    END
  END
  CLASS
    EXPRESSION /H15/
    STYLE
      GEOMTRANSFORM ( buffer ( [shape], 5 ) )
      WIDTH 1.5
    END
  END
  CLASS
    EXPRESSION {H16,b}
  END
END''', [Hole("A01", "name"), Hole("H02"), Hole("A03", "name"), Hole("H04"), Hole("H06", quote="'"),
         Hole("A07", "name"), Hole("H08"), Hole("A09", "name"), Hole("H10"), Hole("A11", "name"), Hole("A12", "name"),
         Hole("A13", "name"), Hole("A14", "name")])

SK["escaped"] = ('''LAYER
  NAME "H01"
  DATA "H02"
  CLASS
    NAME "H03"
    TEXT "H04"
  END
  METADATA
    "k" "H05"
  END
END''', [Hole("H01", "esc", 1), Hole("H02", "esc", 0), Hole("H03"), Hole("H04", "esc", 1, multi=True), Hole("H05", "esc", 0)])

SK["shared"] = ('''MAP
  LAYER
    NAME "l1"
    TYPE POINT
    GROUP "H01"
    CLUSTER
      GROUP ( [A02] = "H03" )
    END
    FEATURE
      POINTS 1 1 END
      TEXT "H04"
    END
    CLASS
      TEXT ( "[A05]" )
      LABEL
        POSITION [A06]
        FONT "H07"
      END
    END
  END
  LAYER
    NAME "l2"
    TYPE POINT
    CLUSTER
      GROUP ( [A08] = 1 )
    END
    GROUP "H09"
  END
  LEGEND
    POSITION LL
  END
  SYMBOL
    NAME "s"
    TYPE TRUETYPE
    FONT "H10"
  END
END''', [Hole("H01"), Hole("A02", "name"), Hole("H03"), Hole("H04"), Hole("A06", "name"), Hole("H07", "xstr"), Hole("A08", "name"), Hole("H09"), Hole("H10")])

INFO = {
    "explanation": "C01: template-symbolic pipeline. The real scanner runs concretely on each skeleton; hole tokens (string contents, attribute names) get "
                   "symbolic values of the same lexical class; the real Parser.parse loop, LALR tables, MapfileTransformer, CaseInsensitiveOrderedDict, "
                   "PrettyPrinter and Quoter run under CrossHair.  Asserted: printed lines == witness rendering with the symbolic values (uniformity), "
                   "re-parse of the printed token stream == same content, second formatting pass == same lines; plus the witness base case through the "
                   "public API with the real scanner.",
    "files": ["mappyfile/parser.py", "mappyfile/transformer.py", "mappyfile/pprint.py", "mappyfile/quoter.py", "mappyfile/ordereddict.py", "mappyfile/utils.py", "mappyfile/mapfile.lark"],
    "functions": ["mappyfile.parser.Parser.parse", "lark LALR driver on mappyfile's table", "mappyfile.transformer.MapfileTransformer.*", "mappyfile.transformer.MapfileToDict.transform",
                  "mappyfile.pprint.PrettyPrinter._format", "mappyfile.quoter.Quoter.*", "mappyfile.utils.loads", "mappyfile.utils.dumps"],
    "bounds": {"string_holes": "quick 2 / thorough 3 code points, 32..0x2FFF without quotes and backslash, not starting with '#' (layer / map skeletons: 1..0x2FFF, single quotes allowed inside double-quoted strings)",
               "names": "2 characters [a-z][a-z0-9_]", "skeletons": "5 structural (one sharing GROUP / TEXT / FONT / POSITION between object types with different lexical rules, one with backslash-escaped quotes inside and at the end of strings) + 19 schema-generated (one per object type, every simple keyword slot)"},
    "outside": ["strings containing a quote character; strings of multi-alternative keywords that look like expressions (documented exclusions)",
                "strings ending in a backslash (known finding KF-C01-TRAILING-BACKSLASH) and hex-colour-shaped strings (a different token class)",
                "texts larger than the skeletons (blocks interact only through composite's key handling, covered by C02)", "INCLUDE (C15)"],
    "assumptions": ["token-value substitution is justified by the scanner lemmas of C05 (E-LEX): every member of the hole class scans to one token of the same type"],
    "stubs": ["hole lexer: forwards the real lexer's tokens, replacing hole token values"],
}


def schema_skeleton(t):
    """one document per object type with every simple keyword slot (first representative), string slots as holes"""
    lines, holes, seen = [t.upper()], [], set()
    n = 0
    for s in S.simple_slots():
        if s["type"] != t or s["key"] in seen:
            continue
        if t == "querymap" and s["key"] == "style":
            continue                                       # known finding KF-C19-QUERYMAP-STYLE (reported by C19)
        seen.add(s["key"])
        if s["kind"] == "string" and s["value"] == "abc":
            n += 1
            mk = "H%02d" % n
            multi = any(c in s["props"] for c in ("oneOf", "anyOf", "allOf")) or s["key"] in ("text", "expression")
            words = [x["word"] for x in S.simple_slots() if x["type"] == t and x["key"] == s["key"] and x["kind"] == "enum"]
            holes.append(Hole(mk, "xstr" if multi else "str", not_words=words))
            lines.append(f'  {s["key"].upper()} "{mk}"')
        else:
            lines.append(f'  {s["key"].upper()} {s["text"]}')
    lines.append("END")
    return "\n".join(lines), holes


def skeletons(tier):
    out = dict(SK)
    for t in S.object_types():
        out["schema." + t] = schema_skeleton(t)
    return out


def obligations(tier, seed):
    obs = []
    L = 2 if tier == "quick" else 3
    # scanner lemmas that justify substituting token values (E-LEX); the class hypotheses are exactly the hole classes used below
    for q, qn in ((34, "dq"), (39, "sq")):
        obs.append(Ob(name=f"C01-LEX/quoted.{qn}", kind="z3", z3_call=("engine.lexmodel", "lx_class_quoted", {"ctx": "value", "q": q, "L": 12 if tier == "quick" else 16}), timeout=900,
                      meta={"desc": f"every member of the string hole class written in {chr(q)} quotes scans to one string token with that lexeme", "functions": ["lark scanner (value state)"]}))
    # without the "does not end in a backslash" hypothesis the lemma fails: the listed known finding (content ending in \ swallows the following text)
    obs.append(Ob(name="C01-LEX/quoted.backslash.known", kind="z3", z3_call=("engine.lexmodel", "lx_class_quoted", {"ctx": "value", "q": 34, "L": 12, "hyp": ["nothex"]}), timeout=900,
                  expect_cex=True, meta={"desc": "quoted string whose content ends in a backslash: the closing quote is read as an escaped quote", "functions": ["DOUBLE_QUOTED_STRING"]}))
    for name, (text, holes) in skeletons(tier).items():
        for h in holes:
            if h.kind not in ("name", "esc"):
                h.L = L
            if h.kind == "str" and h.quote == '"' and name in ("layer", "map"):
                # C01 prints with double quotes: a double-quoted source string may contain single quotes anywhere (only the
                # output quote character is excluded by the documentation)
                h.other_quote = True
        popts = {"expand_includes": False} if name.startswith("schema.") else {}
        src, params, pre = rt_source(text, holes, idem=True, popts=popts)
        obs.append(Ob(name=f"C01-RT/{name}", source=src, pct=900, timeout=1000,
                      meta={"desc": f"skeleton {name}: {len(holes)} symbolic holes ({sum(h.L for h in holes)} symbolic code points): uniform printing, re-parse equal, idempotent",
                            "bounds": {"holes": len(holes), "L": L}, "functions": ["Parser.parse", "MapfileTransformer", "PrettyPrinter._format"], "stubs": ["hole lexer"]}))
    return obs
