"""C03 — the printed text says exactly what the dictionary says, each value in its lexical class.

C03-SLOT: for every object type and every group of keyword slots of one value kind (regenerated
from schemas/*.json), the dict is built directly (auto-creating Mapfile dict, a sibling keyword
before or after, a hidden ``__x__`` key at a symbolic place), the *value is symbolic* within the
kind's domain, the real ``PrettyPrinter._format`` runs under CrossHair, and the complete line list
is compared with an independent rendering rule written from the property statement:
free strings quoted; enumerated words bare upper-case; numbers / booleans bare; bindings,
parenthesised expressions, regexes (also /re/i), list expressions bare; hidden keys absent.
C03-EMPTY: an empty (auto-created) dict value is refused with ValueError for every keyword.
"""
from engine.core import Ob, HEADER, harness, chars, chr_expr, conj
from engine import slots as S

PRELUDE = HEADER + '''
from mappyfile.ordereddict import CaseInsensitiveOrderedDict as CI
from engine import tsp
TYPE = %(type)r
PPD = tsp.printer([TYPE], indent=4, quote='"')
PPS = tsp.printer([TYPE], indent=4, quote="'")
KEYS = %(keys)r
AUX = %(aux)r


def okc(c):
    # printable BMP subset without either quote character (documented exclusion) and without backslash
    return (c >= 32) & (c < 0x3000) & (c != 34) & (c != 39) & (c != 92)


def okfirst(c):
    # expression-capable keywords: a string that looks like an expression / regex / list / binding is outside the
    # guarantee, as are values the printer strips (leading white space)
    return okc(c) & (c != 40) & (c != 47) & (c != 91) & (c != 123) & (c > 32) & (c != 0x85) & (c != 0xa0) & (c != 0x1680) \\
        & ((c < 0x2000) | (c > 0x200a)) & (c != 0x2028) & (c != 0x2029) & (c != 0x202f) & (c != 0x205f)


def okname(c):
    return ((c >= 97) & (c <= 122)) | ((c >= 48) & (c <= 57)) | (c == 95)


def build(key, val, v, hidval):
    """dict with the slot keyword, a sibling repeated keyword before (v even) or after (v odd) and a hidden key"""
    d = CI(CI)
    d["__type__"] = TYPE
    if v >= 2 or v == 1:
        d["__hid__"] = hidval
    if v %% 2 == 0:
        d["include"] = ["i1"]
    d[key] = val
    if v == 3:
        d["__position__"] = {"line": 1, "column": 2, key: hidval}
    if v %% 2 == 1:
        d["include"] = ["i1"]
    if v == 0:
        d["__comments__"] = {}
    return d


def expect(key, rendered, v, Q):
    inc = "    INCLUDE " + Q + "i1" + Q
    line = "    " + key.upper() + " " + rendered
    if v %% 2 == 0:
        return [TYPE.upper(), inc, line, "END"]
    return [TYPE.upper(), line, inc, "END"]

BASEPRE = "(sel >= 0) & (sel < %(n)d) & (v >= 0) & (v < 4)"
'''

BASE = [("sel", "int"), ("v", "int"), ("q", "bool")]

STRING = '''
s = {S}
key = KEYS[sel]
Q = "'" if q else '"'
pp = PPS if q else PPD
lines = pp._format(build(key, s, v, s))
return lines == expect(key, Q + s + Q, v, Q)
'''

ENUM = '''
# enumerated word given in lower or upper case: written bare and upper-case; the two documented exceptions are
# COMPOP (MapServer wants it quoted) and the word END, which would close the block
key, word = KEYS[sel]
val = word.upper() if up else word
Q = "'" if q else '"'
pp = PPS if q else PPD
lines = pp._format(build(key, val, v, "x"))
if key == "compop" or word == "end":
    return lines == expect(key, Q + val + Q, v, Q)
return lines == expect(key, word.upper(), v, Q)
'''

NUMBER = '''
key = KEYS[sel]
val = AUX[n]
Q = "'" if q else '"'
pp = PPS if q else PPD
lines = pp._format(build(key, val, v, val))
return lines == expect(key, repr(val), v, Q)
'''

BOOL = '''
key = KEYS[sel]
Q = "'" if q else '"'
pp = PPS if q else PPD
lines = pp._format(build(key, b, v, b))
return lines == expect(key, "TRUE" if b else "FALSE", v, Q)
'''

BARE = '''
# bindings, parenthesised expressions, regexes and list expressions are written verbatim, unquoted
key = KEYS[sel]
val = {VAL}
Q = "'" if q else '"'
pp = PPS if q else PPD
lines = pp._format(build(key, val, v, val))
return lines == expect(key, val, v, Q)
'''

LIST = '''
# list values: numbers bare, bindings bare, strings quoted, separated by single spaces
key, shape = KEYS[sel]
Q = "'" if q else '"'
pp = PPS if q else PPD
vals = []; parts = []
nums = [AUX[n0], AUX[n1], AUX[n0], AUX[n1], AUX[n0], AUX[n1]]
name = {NAME}
for i, kind in enumerate(shape):
    if kind == "n":
        vals.append(nums[i]); parts.append(repr(nums[i]))
    elif kind == "b":
        vals.append("[" + name + "]"); parts.append("[" + name + "]")
    else:
        vals.append("#" + name); parts.append(Q + "#" + name + Q)
lines = pp._format(build(key, vals, v, vals))
return lines == expect(key, " ".join(parts), v, Q)
'''

EMPTY = '''
# reading a missing keyword of a loaded dict auto-creates an empty dict under it: printing must refuse it
key = KEYS[sel]
d = CI(CI)
d["__type__"] = TYPE
if v % 2 == 0:
    d["include"] = ["i1"]
auto = d[key]                      # auto-creation on read, as the dict API does
if len(auto) != 0:
    return False
pp = PPS if q else PPD
try:
    pp._format(d)
except ValueError:
    return True
return False
'''

MULTI_PRE = HEADER + '''
from mappyfile.ordereddict import CaseInsensitiveOrderedDict as CI
from engine import tsp
PP = tsp.printer(tsp.ALL_TYPES, indent=4, quote='"')


def okc(c):
    return (c >= 32) & (c < 0x3000) & (c != 34) & (c != 39) & (c != 92)


def okname(c):
    return ((c >= 97) & (c <= 122)) | ((c >= 48) & (c <= 57)) | (c == 95)


def D(t):
    d = CI(CI)
    d["__type__"] = t
    return d
'''

MULTI = '''
# one document in which the same keyword occurs in objects of different types with different lexical rules; both visiting orders
s = {S}
b = "[" + {B} + "]"
ex = "([" + {B} + "] = 1)"
st = D("style"); st["geomtransform"] = "bbox"
lb = D("label"); lb["position"] = b
cl = D("class")
cluster = D("cluster"); cluster["group"] = ex
ly = D("layer")
legend = D("legend"); legend["position"] = "ll"
m = D("map")
if rev:
    cl["labels"] = [lb]; cl["styles"] = [st]
    ly["classes"] = [cl]; ly["cluster"] = cluster; ly["geomtransform"] = ex; ly["group"] = s
    m["layers"] = [ly]; m["legend"] = legend
    exp = ["MAP", "    LAYER", "        CLASS", "            LABEL", "                POSITION " + b, "            END", "            STYLE",
           "                GEOMTRANSFORM BBOX", "            END", "        END", "        CLUSTER", "            GROUP " + ex, "        END",
           "        GEOMTRANSFORM " + ex, '        GROUP "' + s + '"', "    END", "    LEGEND", "        POSITION LL", "    END", "END"]
else:
    cl["styles"] = [st]; cl["labels"] = [lb]
    ly["group"] = s; ly["geomtransform"] = ex; ly["cluster"] = cluster; ly["classes"] = [cl]
    m["legend"] = legend; m["layers"] = [ly]
    exp = ["MAP", "    LEGEND", "        POSITION LL", "    END", "    LAYER", '        GROUP "' + s + '"', "        GEOMTRANSFORM " + ex, "        CLUSTER",
           "            GROUP " + ex, "        END", "        CLASS", "            STYLE", "                GEOMTRANSFORM BBOX", "            END",
           "            LABEL", "                POSITION " + b, "            END", "        END", "    END", "END"]
lines = PP._format(m)
return lines == exp and PP._format(m) == exp
'''

INFO = {
    "explanation": "C03: the real PrettyPrinter._format / format_value / check_options_list / Quoter run under CrossHair on dicts built "
                   "directly for every (object type, keyword slot group) with symbolic values, compared line-for-line with a rendering "
                   "rule written from the property statement (lexical class per schema alternative); hidden keys at symbolic places; "
                   "empty auto-created dict values must raise ValueError.",
    "files": ["mappyfile/pprint.py", "mappyfile/quoter.py", "mappyfile/ordereddict.py", "mappyfile/validator.py", "mappyfile/tokens.py"],
    "functions": ["mappyfile.pprint.PrettyPrinter._format", "mappyfile.pprint.PrettyPrinter.format_value", "mappyfile.pprint.PrettyPrinter.check_options_list",
                  "mappyfile.pprint.PrettyPrinter.process_attribute", "mappyfile.pprint.PrettyPrinter.process_repeated_list",
                  "mappyfile.quoter.Quoter.*", "mappyfile.ordereddict.CaseInsensitiveOrderedDict.__missing__"],
    "bounds": {"string_len": "quick 0..3, thorough 0..4; code points 32..0x2FFF without ' \" and backslash",
               "numbers": "selected by symbolic index from a fixed list of ints/floats", "options": "indent 4, quote ' or \"",
               "positions": "sibling keyword before/after; hidden key at 3 places"},
    "outside": ["strings containing a quote character (documented limitation)",
                "strings of expression-capable keywords that look like an expression/regex/list/binding or start with white space",
                "edit histories are covered as states: the printer reads only the current dict (see DESIGN §4 C03)"],
    "assumptions": ["the 'independent reader' of the printed classes is the E-LEX scanner lemma family (C05/C01), not re-done here"],
    "stubs": [],
}

NUMS = [0, -1, 1.5, 255, 1, 7, -0.25, 100000.0, 12]


def _is_exprcap(slot):
    """expression-capable := the schema offers the keyword more than one value alternative (oneOf / anyOf / allOf): such a keyword
    may hold an expression, regex, list or binding besides a plain string, and a *string* that looks like one of those is outside
    the guarantee (docs/pretty_printing.rst)"""
    return any(c in slot["props"] for c in ("oneOf", "anyOf", "allOf")) or slot["key"] in ("text", "expression")


SPECIAL_NAMES = ("compop", "expression", "text", "offset", "polaroffset", "symbol", "style", "name", "type", "filter", "geomtransform")


def _shape(slot):
    import json
    def strip(x):
        if isinstance(x, dict):
            return {k: strip(v) for k, v in x.items() if k not in ("metadata", "default", "example", "deprecated")}
        if isinstance(x, list):
            return [strip(v) for v in x]
        return x
    return json.dumps(strip(slot["props"]), sort_keys=True)


def groups(quick=False):
    """(type, group name) -> keys, from the schema slots.  quick: one keyword per distinct schema shape per type plus every
    keyword name the printer special-cases; thorough: every keyword."""
    g = {}
    seen_shapes = set()
    for s in S.simple_slots():
        t, k, kind = s["type"], s["key"], s["kind"]
        if quick and k not in SPECIAL_NAMES:
            sig = (t, kind, _shape(s), s.get("word") if kind == "enum" and len(str(s.get("word"))) < 4 else None)
            if sig in seen_shapes:
                continue
            seen_shapes.add(sig)
        if kind == "string":
            if s.get("maxlen") == 1 or s["value"] != "abc":
                continue
            name = "xstring" if _is_exprcap(s) else "string"
            g.setdefault((t, name), []).append(k)
        elif kind == "enum":
            g.setdefault((t, "enum"), []).append((k, s["word"]))
        elif kind in ("int", "float", "enumnum"):
            if k not in g.setdefault((t, "number"), []):
                g[(t, "number")].append(k)
        elif kind == "bool":
            if k not in g.setdefault((t, "bool"), []):
                g[(t, "bool")].append(k)
        elif kind == "binding":
            g.setdefault((t, "binding"), []).append(k)
        elif kind == "expression":
            g.setdefault((t, "expression"), []).append(k)
        elif kind == "regex":
            g.setdefault((t, "regex"), []).append(k)
        elif kind in ("numlist", "bindlist", "tuple", "strlist"):
            shape = "".join("n" if isinstance(x, (int, float)) else ("b" if str(x).startswith("[") else "s") for x in s["value"])
            if (k, shape) not in g.setdefault((t, "list"), []):
                g[(t, "list")].append((k, shape))
    # every keyword of the type (for the empty-dict refusal)
    for t in S.object_types():
        ks = []
        for s in S.simple_slots():
            if s["type"] == t and s["key"] not in ks and s["kind"] != "repeated":
                ks.append(s["key"])
        g[(t, "empty")] = ks
    return g


def obligations(tier, seed):
    obs = []
    quick = tier == "quick"
    G = groups(quick)
    lens = (0, 3) if quick else (0, 1, 2, 3, 4)
    NV = 2 if quick else 4                     # sibling before/after (quick) + hidden-key placements (thorough)
    NN = 4 if quick else len(NUMS)
    # keys whose alternatives include an enum make the printer lower-case the (symbolic) string: costly, so one obligation each
    enumkeys = {(sl["type"], sl["key"]) for sl in S.simple_slots() if sl["kind"] in ("enum", "enumnum")}
    items = []
    for (t, name), keys in sorted(G.items()):
        if name == "xstring":
            heavy = [k for k in keys if (t, k) in enumkeys]
            light = [k for k in keys if (t, k) not in enumkeys]
            if light:
                items.append(((t, name, ""), light))
            for k in heavy:
                items.append(((t, name, "." + k), [k]))
        elif name in ("list", "number", "enum") and len(keys) > 12:
            for i in range(0, len(keys), 12):
                items.append(((t, name, f".{i // 12}"), keys[i:i + 12]))
        else:
            items.append(((t, name, ""), keys))
    for (t, name, part), keys in items:
        pre0 = PRELUDE % dict(type=t, keys=keys, aux=NUMS, n=len(keys))
        base = f"(sel >= 0) & (sel < {len(keys)}) & (v >= 0) & (v < {NV})"
        if name not in ("string", "xstring", "list") or (quick and name == "list"):
            base += " & (not q)"
        variants = []
        if name in ("string", "xstring"):
            for L in (lens + ((2,) if (quick and part and name == "xstring") else ())):
                cs = chars("c", L)
                pre = [base] + [(f"okfirst({n})" if (name == "xstring" and i == 0) else f"okc({n})") for i, (n, _) in enumerate(cs)]
                if name == "xstring" and L >= 4:
                    pre.append("(c0 != 78) | (c1 != 79) | (c2 != 84) | (c3 != 32)")      # 'NOT ' + '(..)' looks like an expression
                if part and name == "xstring":
                    pre.append("v == 0")
                    # a string that is (in any letter case) one of the keyword's enumerated words *is* an enumerated value and is
                    # covered by the enum group; exclude it here
                    for w in sorted({sl["word"] for sl in S.simple_slots() if sl["type"] == t and sl["key"] == keys[0] and sl["kind"] == "enum"}):
                        if len(w) == L and L > 0:
                            pre.append(" | ".join(f"((c{i} != {ord(ch)}) & (c{i} != {ord(ch.upper())}))" for i, ch in enumerate(w)))
                    if quick and L == 3:
                        continue                      # enum-bearing keyword: lower-casing a symbolic string is costly; quick uses L=2
                variants.append((f"L{L}", BASE + cs, conj(pre), STRING.format(S=chr_expr("c", L))))
        elif name == "enum":
            variants.append(("", BASE + [("up", "bool")], base, ENUM))
        elif name == "number":
            variants.append(("", BASE + [("n", "int")], base + f" & (n >= 0) & (n < {NN})", NUMBER))
        elif name == "bool":
            variants.append(("", BASE + [("b", "bool")], base, BOOL))
        elif name == "binding":
            for L in (1, 3):
                cs = chars("c", L)
                variants.append((f"L{L}", BASE + cs, conj([base] + [f"okname({n})" for n, _ in cs]),
                                 BARE.format(VAL='"[" + ' + chr_expr("c", L) + ' + "]"')))
        elif name == "expression":
            cs = chars("c", 2)
            pre = conj([base] + [f"okc({n}) & ({n} != 40) & ({n} != 41)" for n, _ in cs])
            variants.append(("", BASE + cs, pre, BARE.format(VAL='"( [a] = \\"" + ' + chr_expr("c", 2) + ' + "\\" )"').replace('\\"', "'")))
        elif name == "regex":
            cs = chars("c", 2)
            pre = conj([base] + [f"okc({n}) & ({n} != 47) & ({n} != 32)" for n, _ in cs])
            variants.append(("", BASE + cs + [("ci", "bool")], pre,
                             BARE.format(VAL='"/" + ' + chr_expr("c", 2) + ' + ("/i" if ci else "/")')))
        elif name == "list":
            cs = chars("c", 2)
            pre = conj([base, f"(n0 >= 0) & (n0 < {NN}) & (n1 >= 0) & (n1 < {NN})" + (" & (n1 == n0 + 1)" if quick else "")] + [f"okname({n})" for n, _ in cs])
            variants.append(("", BASE + [("n0", "int"), ("n1", "int")] + cs, pre, LIST.format(NAME=chr_expr("c", 2))))
        elif name == "empty":
            variants.append(("", BASE, base, EMPTY))
        for suffix, params, pre, body in variants:
            src = pre0 + harness("h", params, pre, body)
            nm = f"C03-SLOT/{t}.{name}{part}{('.' + suffix) if suffix else ''}"
            if name == "empty":
                nm = f"C03-EMPTY/{t}"
            obs.append(Ob(name=nm, source=src, pct=500, timeout=650,
                          meta={"desc": f"{t}: {len(keys)} keyword slot(s) of kind {name}; symbolic value; full line list vs rendering rule",
                                "bounds": {"keys": len(keys), "variant": suffix}, "functions": ["mappyfile.pprint.PrettyPrinter._format"]}))
    # "the text produced by dumps" includes every formatter option: with align_values the keyword and its value must still be two
    # tokens (the C16 layout obligations with alignment on; their cover document has SYMBOL / SYMBOLSET-like short objects)
    from checks import C16
    for o in C16.layout_obs("C03-ALIGN", tier):
        if ".align1." in o.name and ("/indent1." in o.name or "/indent4." in o.name or tier != "quick"):
            obs.append(o)
    # the same keyword in objects of different types (GROUP, GEOMTRANSFORM, POSITION) inside one document, both visiting orders
    cs = chars("c", 2) + chars("n", 2)
    pre = conj([f"okc({n})" for n, _ in chars("c", 2)] + [f"okname({n})" for n, _ in chars("n", 2)] + ["(n0 >= 97) & (n0 <= 122)", "(c0 != 40) & (c0 != 47) & (c0 != 91) & (c0 != 123) & (c0 > 32)"])
    for rev in (0, 1):
        src = MULTI_PRE + harness("h", cs + [("rev", "bool")], conj([pre, "rev" if rev else "not rev"]), MULTI.format(S=chr_expr("c", 2), B=chr_expr("n", 2)))
        obs.append(Ob(name=f"C03-MULTI/shared-keywords.rev{rev}", source=src, pct=600, timeout=700,
                      meta={"desc": "GROUP / GEOMTRANSFORM / POSITION in LAYER, CLUSTER, STYLE, LABEL, LEGEND within one document: each printed by its own object's schema rule, in either visiting order, twice",
                            "functions": ["PrettyPrinter._format", "PrettyPrinter.get_attribute_properties", "PrettyPrinter.format_value"]}))
    return obs
