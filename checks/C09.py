"""C09 — version-aware validation follows minVersion / maxVersion.

C09-RANGE   is_valid_for_version with symbolic bounds / version / presence of each bound.
C09-FILTER  the real get_versioned_properties on each real expanded object schema with a symbolic
            float version, compared with the statement's filter (min <= v <= max at every depth and
            in every alternative list).
C09-ACCEPT  for annotated entries: a document using the keyword / alternative validates (real
            jsonschema on the really pruned schema) iff the symbolic version is in range.
C09-HIST    one Validator object, two calls with differing versions (or none): the second answer
            equals a fresh Validator's (cache keys, in-place pruning).
"""
import json
from engine.core import Ob, HEADER, harness
from engine import slots as S

PRELUDE = HEADER + '''
import copy, json, os
import jsonschema
from collections import OrderedDict
import mappyfile.validator as MV
from mappyfile.validator import Validator
from engine import slots as S

V = Validator()
_RES = {}


def res(name):
    """fully expanded schema as plain containers (JsonRef proxies resolved outside tracing)"""
    if name not in _RES:
        _RES[name] = S.resolve(Validator().get_expanded_schema(name))
    return _RES[name]


def ref_valid(d, v):
    md = d.get("metadata") if isinstance(d, dict) else None
    if isinstance(md, dict):
        if "minVersion" in md and v < md["minVersion"]:
            return False
        if "maxVersion" in md and v > md["maxVersion"]:
            return False
    return True


def ref_filter(x, v):
    """the statement: an annotated keyword/object/alternative is available exactly when min <= v <= max, at any depth"""
    if isinstance(x, dict):
        out = {}
        for k, val in x.items():
            if isinstance(val, dict):
                if ref_valid(val, v):
                    out[k] = ref_filter(val, v)
            elif isinstance(val, list):
                out[k] = [ref_filter(i, v) if isinstance(i, dict) else i for i in val if not isinstance(i, dict) or ref_valid(i, v)]
            else:
                out[k] = val
        return out
    return x
'''

RANGE = '''
d = {"type": "string"}
if has_md:
    md = {}
    if has_min:
        md["minVersion"] = mn
    if has_max:
        md["maxVersion"] = mx
    d["metadata"] = md
got = V.is_valid_for_version(d, v)
exp = True
if has_md and has_min and v < mn:
    exp = False
if has_md and has_max and v > mx:
    exp = False
return got == exp
'''

FILTER = '''
props = copy.deepcopy(res(TYPE)["properties"])
got = V.get_versioned_properties(props, v)
exp = ref_filter(res(TYPE)["properties"], v)
return (got is props) and got == exp
'''

ACCEPT = '''
# the document uses one annotated keyword / alternative; the schema's verdict on that keyword (present in the pruned
# properties -- the object schemas have additionalProperties false -- and value valid for what is left of its alternatives)
# must be "accepted" iff the version is in range.  The real pruning runs on the keyword's own (deep-copied) entry.
t, key, val, mn, mx = ENTRIES[sel]
props = {"__type__": copy.deepcopy(res(t)["properties"]["__type__"]), key: copy.deepcopy(res(t)["properties"][key])}
pruned = V.get_versioned_properties(props, v)
accepted = (key in pruned) and not list(jsonschema.Draft4Validator(pruned[key]).iter_errors(val))
in_range = (mn is None or v >= mn) and (mx is None or v <= mx)
return accepted == in_range and ("__type__" in pruned)
'''

HIST_PRE = '''
import mappyfile
# the cache logic is the same for every schema name; the small symbol schema keeps each traced path short
DOC = mappyfile.loads("SYMBOL NAME 's' TYPE ELLIPSE ANTIALIAS TRUE ANCHORPOINT 0.5 0.5 TRANSPARENT 3 END")
VERS = [None, 6.0, 6.4, 7.6, 7.8]          # pairs with the same integer part on both sides of a bound (6.2, 7.6) included
res("symbol")                                  # populate before jsonref.load is stubbed
_real_load = MV.jsonref.load


def _load(f, base_uri=None):
    # contract of jsonref.load: the file's JSON with every $ref expanded; served from a resolved copy so that no
    # lazy proxy does URL I/O under the symbolic executor
    return copy.deepcopy(res(os.path.basename(f.name)[:-5]))


def call(val, op, ver):
    if op == 0:
        return val.validate(DOC, schema_name="symbol", version=ver)
    if op == 1:
        return val.get_versioned_schema(ver, "symbol")
    return val.get_versioned_schema(None, "symbol")
'''

HIST = '''
MV.jsonref.load = _load
try:
    i1 = int(i1); i2 = int(i2); op1 = int(op1); op2 = int(op2)      # realise the selectors: everything below is concrete per path
    v1 = VERS[i1]; v2 = VERS[i2]
    used = Validator()
    call(used, op1, v1)
    got = call(used, op2, v2)
    fresh = call(Validator(), op2, v2)
    return got == fresh
finally:
    MV.jsonref.load = _real_load
'''

INFO = {
    "explanation": "C09: the real is_valid_for_version / get_versioned_properties / get_versioned_schema / validate run under CrossHair "
                   "with a symbolic float version on the real expanded schemas; results are compared with the statement's range filter, "
                   "acceptance of each annotated entry is decided by the real jsonschema on the really pruned schema, and a two-call "
                   "history on one Validator is compared with a fresh object.",
    "files": ["mappyfile/validator.py"] + ["mappyfile/schemas/%s.json" % t for t in ("map", "layer", "label", "style", "class", "web", "scalebar", "symbol", "legend")],
    "functions": ["mappyfile.validator.Validator.is_valid_for_version", "mappyfile.validator.Validator.get_versioned_properties",
                  "mappyfile.validator.Validator.get_versioned_schema", "mappyfile.validator.Validator.get_expanded_schema",
                  "mappyfile.validator.Validator.validate"],
    "bounds": {"version": "symbolic float in (3, 9) for RANGE/FILTER/ACCEPT; HIST versions from {None, 6.0, 6.4, 7.6, 7.8} on the symbol schema by symbolic index "
                          "(the cache key str(version) realises the float)", "history_length": 2},
    "outside": ["histories longer than two calls (the second call's pre-state is an arbitrary warmed cache of one other version)",
                "state shared between Validator objects: none exists in the source (reading, not a verdict)",
                "CLI `schema --version` plumbing is C20's"],
    "assumptions": ["floats are treated as reals by the solver; only comparisons are applied to the version"],
    "stubs": ["jsonref.load in C09-HIST: returns a resolved deep copy of the same expanded schema (no lazy proxies)"],
}


def annotated():
    ann = []
    slots = S.slots()
    for t in S.object_types():
        sch = S.expanded(t)
        for k, p in sch["properties"].items():
            if not isinstance(p, dict) or k.startswith("__"):
                continue
            md = p.get("metadata", {})
            if "minVersion" in md or "maxVersion" in md:
                cands = [s for s in slots if s["type"] == t and s["key"] == k and s["value"] is not None]
                if cands:
                    ann.append((t, k, _lower(cands[0]["value"]), md.get("minVersion"), md.get("maxVersion")))
            for c in ("oneOf", "anyOf"):
                for i, a in enumerate(p.get(c, [])):
                    if isinstance(a, dict) and "metadata" in a:
                        am = a["metadata"]
                        import jsonschema
                        for s in slots:
                            if s["type"] == t and s["key"] == k and s["value"] is not None:
                                val = _lower(s["value"])
                                others = [o for j, o in enumerate(p[c]) if j != i]
                                if not list(jsonschema.Draft4Validator(a).iter_errors(val)) and \
                                        all(list(jsonschema.Draft4Validator(o).iter_errors(val)) for o in others):
                                    # the entry's own bounds are combined with the keyword's
                                    mn = max([x for x in (am.get("minVersion"), md.get("minVersion")) if x is not None], default=None)
                                    mx = min([x for x in (am.get("maxVersion"), md.get("maxVersion")) if x is not None], default=None)
                                    ann.append((t, k, val, mn, mx))
                                    break
    return ann


def _lower(v):
    if isinstance(v, str):
        return v.lower()
    if isinstance(v, list):
        return [_lower(x) for x in v]
    return v


def obligations(tier, seed):
    obs = []
    quick = tier == "quick"
    src = PRELUDE + harness("h", [("has_md", "bool"), ("has_min", "bool"), ("has_max", "bool"), ("mn", "float"), ("mx", "float"), ("v", "float")],
                            "(v > 0.0) & (v < 20.0) & (mn >= 0.0) & (mx <= 1000.0)", RANGE)
    obs.append(Ob(name="C09-RANGE", source=src, pct=120, timeout=200,
                  meta={"desc": "is_valid_for_version == (min <= v <= max) for symbolic bounds and presence", "functions": ["Validator.is_valid_for_version"]}))
    types = ["style", "label", "class", "symbol", "legend", "scalebar", "web"] if quick else [t for t in S.object_types()]
    for t in types:
        src = PRELUDE + f"TYPE = {t!r}\nres(TYPE)\n" + harness("h", [("v", "float")], "(v > 3.0) & (v < 9.0)", FILTER)
        obs.append(Ob(name=f"C09-FILTER/{t}", source=src, pct=900 if not quick else 300, timeout=1000 if not quick else 400,
                      meta={"desc": f"get_versioned_properties on the real expanded {t} schema, symbolic version, vs range filter at every depth",
                            "bounds": {"version": "(3,9)"}, "functions": ["Validator.get_versioned_properties"]}))
    ann = annotated()
    if quick:
        seen, sub = set(), []
        for a in ann:
            sig = (a[0], a[3], a[4])
            if sig not in seen:
                seen.add(sig)
                sub.append(a)
        ann = sub
    bytype = {}
    for a in ann:
        bytype.setdefault(a[0], []).append(a)
    for t, entries in sorted(bytype.items()):
        for i in range(0, len(entries), 6):
            chunk = entries[i:i + 6]
            src = PRELUDE + f"ENTRIES = {chunk!r}\nres({t!r})\n" + harness("h", [("sel", "int"), ("v", "float")],
                                                                            f"(sel >= 0) & (sel < {len(chunk)}) & (v > 3.0) & (v < 9.0)", ACCEPT)
            obs.append(Ob(name=f"C09-ACCEPT/{t}.{i // 6}", source=src, pct=600, timeout=700,
                          meta={"desc": f"{len(chunk)} annotated entr(ies) of {t}: accepted iff version in range (real jsonschema on the pruned schema)",
                                "bounds": {"entries": [(c[1], c[3], c[4]) for c in chunk]}, "functions": ["Validator.get_versioned_properties"]}))
    for op1 in range(3):
        for i1 in range(5):
            pre = f"(i1 == {i1}) & (i2 >= 0) & (i2 < 5) & (op1 == {op1}) & (op2 >= 0) & (op2 < 2)"
            src = PRELUDE + HIST_PRE + harness("h", [("i1", "int"), ("i2", "int"), ("op1", "int"), ("op2", "int")], pre, HIST)
            obs.append(Ob(name=f"C09-HIST/op{op1}.v{i1}", source=src, pct=900, timeout=1000,
                          meta={"desc": "second call on a used Validator == fresh Validator (versions by symbolic index, validate / schema export)",
                                "stubs": ["jsonref.load -> resolved deep copy"], "functions": ["Validator.validate", "Validator.get_versioned_schema", "Validator.get_expanded_schema"]}))
    return obs
