"""C20 — file, stream and command-line front ends agree with the string API.

C20-PLUMB  the three loaders / three writers / the click callbacks of `format` and `schema` run for real under
           CrossHair with the core workers (Parser.parse, MapfileToDict, PrettyPrinter, file writers) replaced by
           recorders: for symbolic text and symbolic options every front end hands the core the same text and the
           same options and returns / writes what the core produced.
C20-EXIT   (a) the real `validate` callback with open()/validate() stubbed (symbolic per-file parse failure, symbolic
           message counts): one echoed line per message, status == e(problems);  (b) E-ARITH: the expression given to
           sys.exit is translated from cli.py's AST to SMT: for every n >= 0 the status byte is 0 iff n == 0, and
           equals n whenever n fits a byte.
"""
from engine.core import Ob, HEADER, harness, chars, chr_expr, conj

PRELUDE = HEADER + '''
import sys, json
import mappyfile
import mappyfile.utils as U
import mappyfile.cli as CLI
from mappyfile.parser import Parser

REC = []


class RecParser(Parser):
    """real Parser plumbing (parse_file, load) with construction and parse() recorded"""
    TEXT = None

    def __init__(self, expand_includes=True, include_comments=False, **kwargs):
        REC.append(("Parser", expand_includes, include_comments, kwargs))
        self.expand_includes = expand_includes
        self.include_comments = include_comments
        self.kwargs = kwargs

    def open_file(self, fn):
        REC.append(("open_file", fn))
        return RecParser.TEXT

    def parse(self, text, fn=None):
        REC.append(("parse", text, fn))
        return ("TREE", text)


class RecToDict:
    def __init__(self, include_position=False, include_comments=False, **kwargs):
        REC.append(("ToDict", include_position, include_comments, kwargs))

    def transform(self, tree):
        REC.append(("transform", tree))
        return ("DICT", tree)


class RecPrinter:
    OUT = None

    def __init__(self, **opts):
        REC.append(("Printer", opts))

    def pprint(self, d):
        REC.append(("pprint", d))
        return RecPrinter.OUT


class FP:
    def __init__(self, text, name=None):
        self._t = text
        if name is not None:
            self.name = name
        self.written = []

    def read(self):
        return self._t

    def write(self, s):
        self.written.append(s)

    def __enter__(self):
        return self

    def __exit__(self, *a):
        return False


def okc(c):
    return (c >= 1) & (c < 0x110000) & ((c < 0xd800) | (c > 0xdfff))
'''

LOADERS = '''
text = {T} + "MAP END"
U.Parser, U.MapfileToDict = RecParser, RecToDict
RecParser.TEXT = text
try:
    del REC[:]
    r1 = mappyfile.open("/x/y.map", expand_includes=ex, include_comments=co, include_position=po)
    a = list(REC); del REC[:]
    r2 = mappyfile.load(FP(text, "/x/y.map" if named else None), expand_includes=ex, include_comments=co, include_position=po)
    b = list(REC); del REC[:]
    r3 = mappyfile.loads(text, expand_includes=ex, include_comments=co, include_position=po)
    c = list(REC)
finally:
    from mappyfile.transformer import MapfileToDict
    U.Parser, U.MapfileToDict = Parser, MapfileToDict
core = [("Parser", ex, co, {{}}), ("parse", text, None), ("ToDict", po, co, {{}}), ("transform", ("TREE", text))]
exp_a = [core[0], ("open_file", "/x/y.map"), ("parse", text, "/x/y.map"), core[2], core[3]]
exp_b = [core[0], ("parse", text, "/x/y.map" if named else None), core[2], core[3]]
return a == exp_a and b == exp_b and c == core and r1 == r2 == r3 == ("DICT", ("TREE", text))
'''

WRITERS = '''
out = {T} + "MAP\\nEND"
RecPrinter.OUT = out
saved = []
U.PrettyPrinter = RecPrinter
real_save = U._save
U._save = lambda fn, s: saved.append((fn, s))
d = {{"__type__": "map"}}
sp = [" ", "\\t"][spi]; q = ["'", '"'][qi]; nl = ["\\n", "\\r\\n", " "][nli]
try:
    del REC[:]
    if dflt:
        s1 = mappyfile.dumps(d)
        a = list(REC); del REC[:]
        fp = FP("")
        mappyfile.dump(d, fp)
        b = list(REC); del REC[:]
        r = mappyfile.save(d, "/o/out.map")
        c = list(REC)
        opts = dict(indent=4, spacer=" ", quote='"', newlinechar="\\n", end_comment=False, align_values=False, separate_complex_types=False)
    else:
        kw = dict(indent=ind, spacer=sp, quote=q, newlinechar=nl, end_comment=ec, align_values=al, separate_complex_types=sc)
        s1 = mappyfile.dumps(d, **kw)
        a = list(REC); del REC[:]
        fp = FP("")
        mappyfile.dump(d, fp, **kw)
        b = list(REC); del REC[:]
        r = mappyfile.save(d, "/o/out.map", **kw)
        c = list(REC)
        opts = kw
finally:
    from mappyfile.pprint import PrettyPrinter
    U.PrettyPrinter = PrettyPrinter
    U._save = real_save
core = [("Printer", opts), ("pprint", d)]
return a == core and b == core and c == core and s1 == out and fp.written == [out] and saved == [("/o/out.map", out)] and r == "/o/out.map"
'''

SAVEFILE = '''
# the real _save: one UTF-8 text file opened for writing, the string written once, unchanged
import codecs
s = {T}
opened = []
fp = FP("")
real = U.codecs.open
U.codecs.open = lambda fn, mode, encoding=None: (opened.append((fn, mode, encoding)), fp)[1]
try:
    U._save("/o/f.map", s)
finally:
    U.codecs.open = real
return opened == [("/o/f.map", "w", "utf-8")] and fp.written == [s]
'''

OPENFILE = '''
# the real Parser.open_file / parse_file (io.open stubbed by an in-memory file system): the same path read again after the file was
# rewritten must give the new content, and equals what load / loads give for that content
import mappyfile.parser as MP
t1 = {T} + "MAP END"
t2 = {T2} + "LAYER END"
fs = {{"/x/a.map": t1}}
opened = []
def fake_open(fn, mode="r", encoding=None):
    opened.append((fn, mode, encoding))
    return FP(fs[fn], fn)
class P2(RecParser):
    open_file = Parser.open_file           # real file-reading plumbing
real_open = MP.open
MP.open = fake_open
U.Parser, U.MapfileToDict = P2, RecToDict
try:
    r1 = mappyfile.open("/x/a.map")
    fs["/x/a.map"] = t2                     # e.g. after save() to the same path
    r2 = mappyfile.open("/x/a.map")
    r3 = mappyfile.loads(t2)
finally:
    from mappyfile.transformer import MapfileToDict
    MP.open = real_open
    U.Parser, U.MapfileToDict = Parser, MapfileToDict
return r1 == ("DICT", ("TREE", t1)) and r2 == ("DICT", ("TREE", t2)) and r2 == r3 and opened == [("/x/a.map", "r", "utf-8")] * 2
'''

FORMAT = '''
calls = []
quotes = ['"', "'", '\\\\"', "\\\\'"]; spacers = [" ", "\\\\t", "\\t", "  "]; nls = ["\\n", "\\\\n", "\\\\r\\\\n", " "]
dec_q = ['"', "'", '"', "'"]; dec_s = [" ", "\\t", "\\t", "  "]; dec_n = ["\\n", "\\n", "\\r\\n", " "]
real_open, real_save = mappyfile.open, mappyfile.save
mappyfile.open = lambda fn, **kw: (calls.append(("open", fn, kw)), "DICT")[1]
mappyfile.save = lambda d, fn, **kw: (calls.append(("save", d, fn, kw)), fn)[1]
try:
    code = None
    try:
        CLI.format.callback.__wrapped__(None, "/i/in.map", "/o/out.map", ind, spacers[spi], quotes[qi], nls[nli], ex, co)
    except SystemExit as e:
        code = e.code
finally:
    mappyfile.open, mappyfile.save = real_open, real_save
return code == 0 and calls == [
    ("open", "/i/in.map", dict(expand_includes=ex, include_comments=co, include_position=True)),
    ("save", "DICT", "/o/out.map", dict(indent=ind, spacer=dec_s[spi], quote=dec_q[qi], newlinechar=dec_n[nli]))]
'''

SCHEMA = '''
calls = []
class RecValidator:
    def get_versioned_schema(self, version=None, schema_name="map"):
        calls.append(("schema", version, schema_name))
        return {"b": 1, "a": [version], "c": {"z": None, "y": "é"}}
fp = FP("")
opened = []
real_v, real_open = CLI.Validator, CLI.codecs.open
CLI.Validator = RecValidator
CLI.codecs.open = lambda fn, mode, encoding=None: (opened.append((fn, mode, encoding)), fp)[1]
ver = [None, 7.6, 8.0, 6][vi]
try:
    code = None
    try:
        CLI.schema.callback.__wrapped__(None, "/o/s.json", ver)
    except SystemExit as e:
        code = e.code
finally:
    CLI.Validator, CLI.codecs.open = real_v, real_open
exp = json.dumps({"b": 1, "a": [ver], "c": {"z": None, "y": "é"}}, sort_keys=True, indent=4)
return code == 0 and calls == [("schema", ver, "map")] and opened == [("/o/s.json", "w", "utf-8")] and "".join(fp.written) == exp
'''

EXIT = '''
# k files; file i fails to parse iff f_i, else validate() returns m_i messages
echoed = []
fails = [f0, f1, f2][:k]; counts = [m0, m1, m2][:k]
names = ["a.map", "b.map", "c.map"][:k]
real = (CLI.get_mapfiles, mappyfile.open, mappyfile.validate, CLI.click.echo)
def fake_open(fn, **kw):
    if fails[names.index(fn)]:
        raise ValueError("parse error in " + fn)
    return ("DICT", fn, kw)
def fake_validate(d, version=None):
    n = counts[names.index(d[1])]
    return [{"line": i, "column": 1, "message": "M%d" % i, "error": "E"} for i in range(n)]
CLI.get_mapfiles = lambda mf: list(names)
mappyfile.open, mappyfile.validate = fake_open, fake_validate
CLI.click.echo = lambda s=None, **kw: echoed.append(s)
import logging
logging.disable(logging.CRITICAL)
try:
    code = "none"
    try:
        CLI.validate.callback.__wrapped__(None, ("*.map",), ex, 8.2)
    except SystemExit as e:
        code = e.code
finally:
    CLI.get_mapfiles, mappyfile.open, mappyfile.validate, CLI.click.echo = real
if k == 0:
    return code == "none" and len(echoed) == 1          # nothing matched: a notice, no validation performed
problems = 0
msg_lines = 0
for i in range(k):
    if fails[i]:
        problems += 1
    else:
        problems += counts[i]
        msg_lines += counts[i]
per_message = [e for e in echoed if " (Line: " in e]
if len(per_message) != msg_lines:
    return False
return code == STATUS(problems) and (code == 0) == (problems == 0)
'''

INFO = {
    "explanation": "C20: the real open/load/loads, dumps/dump/save/_save and the click callbacks format/validate/schema are executed "
                   "symbolically with the core workers replaced by recorders (symbolic text, symbolic option values / flags / per-file outcomes); "
                   "the exit-status expression of `mappyfile validate` is translated from the AST to SMT and checked for every n.",
    "files": ["mappyfile/utils.py", "mappyfile/cli.py", "mappyfile/parser.py"],
    "functions": ["mappyfile.utils.open", "mappyfile.utils.load", "mappyfile.utils.loads", "mappyfile.utils.dumps", "mappyfile.utils.dump",
                  "mappyfile.utils.save", "mappyfile.utils._save", "mappyfile.utils._pprint", "mappyfile.parser.Parser.parse_file", "mappyfile.parser.Parser.load",
                  "mappyfile.cli.format", "mappyfile.cli.validate", "mappyfile.cli.schema"],
    "bounds": {"text": "3 symbolic code points (1..0x10FFFF without surrogates) + fixed tail", "files": "0..3", "messages_per_file": "0..4",
               "indent": "unbounded int", "exit_expression": "all n in [0, 2^40)"},
    "outside": ["UTF-8 codec fidelity per code point through real files (C-level codecs, I/O)", "the CLI as an OS process (only counterexample replays run it)",
                "errors grows by one per message for counts > 4 (uniform loop body; stated extrapolation)"],
    "assumptions": ["recorders stand for Parser.parse / MapfileToDict / PrettyPrinter / codecs.open / click.echo; their own behaviour is C01-C16's subject"],
    "stubs": ["Parser.__init__/open_file/parse recorder", "MapfileToDict recorder", "PrettyPrinter recorder", "utils._save / codecs.open recorder",
              "mappyfile.open / mappyfile.save / mappyfile.validate / get_mapfiles / click.echo recorders in the CLI obligations"],
}


def obligations(tier, seed):
    obs = []
    cs = chars("c", 3)
    T = chr_expr("c", 3)
    cpre = [f"okc({n})" for n, _ in cs]
    obs.append(Ob(name="C20-PLUMB/loaders", source=PRELUDE + harness("h", cs + [("ex", "bool"), ("co", "bool"), ("po", "bool"), ("named", "bool")], conj(cpre), LOADERS.format(T=T)),
                  pct=300, timeout=400, meta={"desc": "open / load / loads hand the core the same text and options", "functions": ["utils.open", "utils.load", "utils.loads", "Parser.parse_file", "Parser.load"]}))
    obs.append(Ob(name="C20-PLUMB/writers", source=PRELUDE + harness("h", cs + [("dflt", "bool"), ("ind", "int"), ("spi", "int"), ("qi", "int"), ("nli", "int"), ("ec", "bool"), ("al", "bool"), ("sc", "bool")],
                                                                      conj(cpre + ["(spi >= 0) & (spi < 2) & (qi >= 0) & (qi < 2) & (nli >= 0) & (nli < 3)"]), WRITERS.format(T=T)),
                  pct=300, timeout=400, meta={"desc": "dumps / dump / save hand the printer the same seven options and return/write the same string", "functions": ["utils.dumps", "utils.dump", "utils.save", "utils._pprint"]}))
    obs.append(Ob(name="C20-PLUMB/savefile", source=PRELUDE + harness("h", cs, conj(cpre), SAVEFILE.format(T=T)), pct=200, timeout=300,
                  meta={"desc": "_save opens one utf-8 file for writing and writes the string unchanged", "functions": ["utils._save"]}))
    cs2 = chars("d", 2)
    obs.append(Ob(name="C20-PLUMB/openfile", source=PRELUDE + harness("h", cs + cs2, conj(cpre + [f"okc({n})" for n, _ in cs2]), OPENFILE.format(T=T, T2=chr_expr("d", 2))),
                  pct=300, timeout=400, meta={"desc": "real Parser.open_file/parse_file over a stubbed io.open: utf-8 text mode; a path read twice reflects the file's current content (no stale state)",
                                              "functions": ["Parser.open_file", "Parser.parse_file", "utils.open"], "stubs": ["io.open in mappyfile.parser"]}))
    obs.append(Ob(name="C20-PLUMB/format", source=PRELUDE + harness("h", [("ind", "int"), ("spi", "int"), ("qi", "int"), ("nli", "int"), ("ex", "bool"), ("co", "bool")],
                                                                     "(spi >= 0) & (spi < 4) & (qi >= 0) & (qi < 4) & (nli >= 0) & (nli < 4)", FORMAT), pct=400, timeout=500,
                  meta={"desc": "`format` == save(open(IN, ...), OUT, decoded options); exit 0", "functions": ["cli.format"]}))
    obs.append(Ob(name="C20-PLUMB/schema", source=PRELUDE + harness("h", [("vi", "int")], "(vi >= 0) & (vi < 4)", SCHEMA), pct=200, timeout=300,
                  meta={"desc": "`schema` writes json.dumps(get_versioned_schema(version), sort_keys, indent=4) as utf-8", "functions": ["cli.schema"]}))
    status = "\nfrom engine.arith import exit_status_fn\nSTATUS = exit_status_fn()\n"
    for k in range(4):
        src = PRELUDE + status + harness("h", [("k", "int"), ("f0", "bool"), ("f1", "bool"), ("f2", "bool"), ("m0", "int"), ("m1", "int"), ("m2", "int"), ("ex", "bool")],
                                         f"(k == {k}) & (m0 >= 0) & (m0 <= 4) & (m1 >= 0) & (m1 <= 4) & (m2 >= 0) & (m2 <= 4)", EXIT)
        obs.append(Ob(name=f"C20-EXIT/callback.k{k}", source=src, pct=600, timeout=700,
                      meta={"desc": "validate callback: one line per message; SystemExit code == e(#messages + #unparseable files); 0 iff no problem",
                            "functions": ["cli.validate"], "stubs": ["open/validate/get_mapfiles/echo"]}))
    obs.append(Ob(name="C20-EXIT/status-byte", kind="z3", z3_call=("engine.arith", "exit_status_query", {}), timeout=300,
                  meta={"desc": "AST of the sys.exit argument in cli.validate -> SMT: for all n>=0, (e(n) mod 256 == 0) <=> n == 0 and e(n) == n for n <= 255",
                        "functions": ["cli.validate (sys.exit expression)"]}))
    return obs
