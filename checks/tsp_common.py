"""Generators for template-symbolic pipeline (TSP) harnesses shared by C01, C02, C04, C05, C08, C10, C13, C14."""
from __future__ import annotations

import re
from engine.core import HEADER, harness, chars, chr_expr, conj

PRELUDE = HEADER + '''
import mappyfile
from mappyfile.transformer import MapfileToDict
from engine import tsp
PIPE = tsp.pipe()                                # real Parser (grammar, tables) built once at import, outside tracing
PIPE_NOINC = tsp.pipe(expand_includes=False)
PIPEC = tsp.pipe(include_comments=True)
M = MapfileToDict()
MP = MapfileToDict(include_position=True)
MC = MapfileToDict(include_comments=True)
MPC = MapfileToDict(include_position=True, include_comments=True)
PP = tsp.printer(tsp.ALL_TYPES, indent=4, quote='"')


def okc(c):
    # string content: BMP subset without either quote character (documented exclusion) and without backslash
    return (c >= 32) & (c < 0x3000) & (c != 34) & (c != 39) & (c != 92)


def okstart(c):
    # first character of a quoted string: additionally not '#': "#fff" scans as a hex colour, a different lexical class
    return okc(c) & (c != 35)


def okfirst(c):
    # strings of multi-alternative keywords: not looking like an expression / regex / list / binding, no leading white space
    return okstart(c) & (c != 40) & (c != 47) & (c != 91) & (c != 123) & (c > 32) & (c != 0x85) & (c != 0xa0) & (c != 0x1680) \\
        & ((c < 0x2000) | (c > 0x200a)) & (c != 0x2028) & (c != 0x2029) & (c != 0x202f) & (c != 0x205f)


def okq(c, q):
    # content of a string written in quote q when nothing is printed afterwards (C02): only its own quote and the backslash are excluded,
    # so the *other* quote character may occur anywhere, also first and last
    return (c >= 1) & (c < 0x3000) & (c != q) & (c != 92)           # control characters, line breaks included: multi-line strings are legal


def okname(c):
    # attribute / item names inside [ ] : the UNQUOTED_STRING alphabet restricted to ASCII lower-case, digits, underscore
    return ((c >= 97) & (c <= 122)) | ((c >= 48) & (c <= 57)) | (c == 95)
'''


class Hole:
    def __init__(self, marker, kind="str", L=2, quote='"', not_words=(), other_quote=False, multi=False):
        self.marker, self.kind, self.L, self.quote, self.not_words = marker, kind, L, quote, tuple(not_words)
        self.other_quote = other_quote
        self.multi = multi             # the keyword has several schema alternatives: expression / regex / list / binding look-alikes excluded

    @property
    def var(self):
        return "s_" + self.marker.lower()

    def params(self):
        if self.kind == "esc":
            return chars(self.marker.lower() + "_", 1 + self.L)       # one character, an escaped quote, then L (0 or 1) characters
        return chars(self.marker.lower() + "_", self.L)

    def pre(self):
        out = []
        for i, (n, _) in enumerate(self.params()):
            if self.kind == "name":
                out.append(f"okname({n})")
            elif self.other_quote:
                out.append(f"okq({n}, {ord(self.quote)})" + (f" & ({n} != 35)" if i == 0 else ""))
            elif (self.kind == "xstr" or self.multi) and i == 0:
                out.append(f"okfirst({n})")
            elif i == 0:
                out.append(f"okstart({n})")
            else:
                out.append(f"okc({n})")
        if self.kind == "xstr" and self.L >= 4:
            p = [n for n, _ in self.params()]
            out.append(f"({p[0]} != 78) | ({p[1]} != 79) | ({p[2]} != 84) | ({p[3]} != 32)")
        p = [n for n, _ in self.params()]
        if self.kind == "esc" and self.multi and self.L:
            out.append(f"{p[1]} != 105")          # ...\"i would read as a case-insensitive string literal (expression look-alike)
        for w in self.not_words:
            # a string that is (case-insensitively) an enumerated word of its keyword is an enumerated value, not a free string
            if len(w) == self.L and self.L > 0:
                out.append(" | ".join(f"(({p[i]} != {ord(ch)}) & ({p[i]} != {ord(ch.upper())}))" for i, ch in enumerate(w)))
        if self.kind == "name":
            # a name must not scan as a number or keyword: start with a letter
            p0 = self.params()[0][0]
            out.append(f"({p0} >= 97) & ({p0} <= 122)")
        return out

    def build(self):
        if self.kind == "esc":
            pfx = self.marker.lower() + "_"
            tail = f" + chr({pfx}1)" if self.L else ""
            # content with a backslash-escaped quote of the string's own kind (in the documented domain: only *unescaped* quotes are excluded)
            return f"{self.var} = chr({pfx}0) + chr(92) + {self.quote!r}{tail}"
        return f"{self.var} = {chr_expr(self.marker.lower() + '_', self.L)}"

    def src_token(self):
        """token text in the skeleton that the hole lexer replaces"""
        if self.kind == "name":
            return self.marker
        return self.quote + self.marker + self.quote

    def is_string(self):
        return self.kind != "name"

    def src_value(self):
        if self.kind == "name":
            return self.var
        return f"{self.quote!r} + {self.var} + {self.quote!r}"


def line_expr(line: str, holes: list[Hole]) -> str:
    """python expression for an output line of the witness run with each hole's marker replaced by its symbolic value"""
    if not holes:
        return repr(line)
    rx = re.compile("|".join(re.escape(h.marker) for h in holes))
    parts, pos = [], 0
    byname = {h.marker: h for h in holes}
    for m in rx.finditer(line):
        if m.start() > pos:
            parts.append(repr(line[pos:m.start()]))
        parts.append(byname[m.group(0)].var)
        pos = m.end()
    if pos < len(line):
        parts.append(repr(line[pos:]))
    return " + ".join(parts) if parts else "''"


def witness_run(text, ppopts=None, **popts):
    """concrete run of the real public API on the skeleton with the markers as values"""
    import logging
    logging.disable(logging.CRITICAL)
    import mappyfile
    d = mappyfile.loads(text, **popts)
    out = mappyfile.dumps(d, **(ppopts or {}))
    return d, out


def failing_witness_source(text, popts, ppopts=None):
    """the witness text itself makes the real public API raise while the harness is being generated: the obligation becomes that
    very call (CrossHair reports the exception, the replay reproduces it in plain CPython)"""
    body = ("P = PIPEC if POPTS.get('include_comments') else (PIPE_NOINC if POPTS.get('expand_includes') is False else PIPE)\n"
            "T = MapfileToDict(include_position=bool(POPTS.get('include_position')), include_comments=bool(POPTS.get('include_comments')))\n"
            "d = T.transform(P.parse(TEXT))\n"
            "text = '\\n'.join(PP._format(d))\n"
            "T.transform(P.parse(text))\n"
            "return z == z\n")
    defs = f"\nTEXT = {text!r}\nPOPTS = {popts!r}\nPPOPTS = {dict(ppopts or {})!r}\n"
    return PRELUDE + defs + harness("h", [("z", "int")], "", body)


def rt_source(text: str, holes: list[Hole], idem=True, popts=None, ppopts=None) -> tuple[str, list, str]:
    """C01-RT / C04-FIX harness for one skeleton: returns (module source, params, pre)"""
    popts = popts or {}
    ppopts = dict(ppopts or {})
    ppopts.setdefault("newlinechar", "\n")
    try:
        d, printed = witness_run(text, ppopts, **popts)
        import mappyfile as _m
        _m.loads(printed, **popts)
    except Exception:
        return failing_witness_source(text, popts, ppopts), [("z", "int")], ""
    lines = printed.split(ppopts["newlinechar"])
    Q = ppopts.get("quote", '"')
    params, pre, build = [], [], []
    for h in holes:
        params += h.params()
        pre += h.pre()
        build.append(h.build())
    holes1 = "{" + ", ".join(f"{h.src_token()!r}: {h.src_value()}" for h in holes) + "}"
    # in the printed text a string hole is in the printer's double quotes, except inside expressions, which keep the source quotes:
    # map whichever quoted form of the marker the printed witness contains; names stay bare
    ents = []
    for h in holes:
        if h.kind == "name":
            ents.append(f"{h.marker!r}: {h.var}")
        else:
            for q in (Q, "'" if Q == '"' else '"'):
                if q + h.marker + q in printed:
                    ents.append(f"{q + h.marker + q!r}: {q!r} + {h.var} + {q!r}")
    holes2 = "{" + ", ".join(ents) + "}"
    exp = "[" + ",\n       ".join(line_expr(ln, holes) for ln in lines) + "]"
    pipe = "PIPE_NOINC" if popts.get("expand_includes") is False else "PIPE"
    body = "\n".join(build) + f'''
d1 = M.transform({pipe}.parse(TEXT, {holes1}))
lines = PP._format(d1)
exp = {exp}
if lines != exp:
    return False                      # printing is not uniform in the hole values (or differs from the witness rendering)
d2 = M.transform({pipe}.parse(PRINTED, {holes2}))
if tsp.plain(d2) != tsp.plain(d1):
    return False                      # re-reading the printed text gives different content
''' + ('''if PP._format(d2) != exp:
    return False                      # a second formatting pass changes the text
''' if idem else "") + "return BASE_OK\n"
    defs = f'''
TEXT = {text!r}
PRINTED = {printed!r}
POPTS = {popts!r}
PPOPTS = {ppopts!r}
PP = tsp.printer(tsp.ALL_TYPES, **PPOPTS)


def _base():
    """base case on the witness through the public API with the real scanner end to end"""
    d1 = mappyfile.loads(TEXT, **POPTS)
    t1 = mappyfile.dumps(d1, **PPOPTS)
    d2 = mappyfile.loads(t1, **POPTS)
    t2 = mappyfile.dumps(d2, **PPOPTS)
    return tsp.plain(d1) == tsp.plain(d2) and t1 == t2 == PRINTED


BASE_OK = _base()
'''
    return PRELUDE + defs + harness("h", params, conj(pre), body), params, conj(pre)
