"""C19 — grammar, keyword tables and schemas describe one vocabulary.

C19-VOCAB    (E-LALR) per object type: TYPE s1 s2 [s3] END with the slots symbolic over *every* keyword slot the schema gives
             the type (token sequences from the real scanner; the re-tagging of Parser.parse and SYMBOL_ATTRIBUTES are part of
             the encoding): the real LALR table accepts every member and reduces exactly the expected attr / composite rules,
             i.e. every keyword parses in first / last (quick: pairs) and middle (thorough: triples) position next to every
             other keyword.  A model is replayed through loads.
C19-MODEL    translator validation: the automaton + re-tagging model agrees with the real Parser on every single-slot document
             and on a set of accept / reject texts.
C19-TABLES   every (parent, child block) the schemas allow: parsed by the real pipeline, the child is stored under the schema's
             key as a singleton dict or plural list, the auto-creating dict and the printer agree, the result re-loads and
             validates (apart from missing required keywords).
C19-DEFAULT  every declared default is valid for its own keyword (reference evaluator of C07) and create(type, version)
             prints, re-loads and validates apart from missing required keywords, for versions below / inside / above each
             bound.
C19-SLOT     each slot: value representative as written by MapServer -> loads gives the expected Python value, the printer's
             schema lookup finds it, dumps re-loads, validate accepts (apart from required).
"""
from engine.core import Ob, HEADER, harness
from engine import slots as S

TAB_PRE = HEADER + '''
import copy, os
import mappyfile
from mappyfile.validator import Validator
from mappyfile.transformer import MapfileToDict
from mappyfile.ordereddict import CaseInsensitiveOrderedDict as CI
import mappyfile.validator as MV
import mappyfile.utils as U
from engine import slots as S, tsp
from engine.refmodels import ref_ok
PIPE = tsp.pipe()                       # real Parser / printer / validator objects are built at import time, outside tracing
M = MapfileToDict()
PP = tsp.printer(tsp.ALL_TYPES)
V = Validator()
PAIRS = %(pairs)r
for _p in tsp.ALL_TYPES:
    list(V.get_schema_validator(_p).iter_errors({"__type__": _p}))


class _J:
    dumps = staticmethod(lambda x, **k: x)
    loads = staticmethod(lambda x, **k: x)
    load = staticmethod(MV.json.load)


MV.json = _J
_RES = {t: S.resolve(Validator().get_expanded_schema(t)) for t in tsp.ALL_TYPES}
MV.jsonref.load = lambda f, base_uri=None: copy.deepcopy(_RES[os.path.basename(f.name)[:-5]])     # resolved copy instead of lazy URL proxies


def loads(text):
    return M.transform(PIPE.parse(text))


def dumps(d):
    return "\\n".join(PP._format(d))
'''

TABLES = '''
p, key, kind, child = PAIRS[sel]
text = p.upper() + "\\n" + child.upper() + "\\nEND\\nEND"
d = loads(text)
stored = [k for k in d.keys() if not k.startswith("__")]
if stored != [key]:
    return False                                   # stored under the key the parent schema uses
if kind == "object" and not (isinstance(d[key], dict) and d[key]["__type__"] == child):
    return False
if kind == "objlist" and not (isinstance(d[key], list) and len(d[key]) == 1 and d[key][0]["__type__"] == child):
    return False
auto = CI(CI)
if isinstance(auto[key], list) != (kind == "objlist"):
    return False                                   # the auto-creating dict agrees
if loads(dumps(d)) != d:
    return False                                   # the printer agrees
msgs = [m for m in V.validate(d, schema_name=p) if "required" not in m["error"]]
return msgs == []
'''

DEF_PRE = TAB_PRE + '''
TYPES = %(types)r
DEFAULTS = %(defaults)r
# each declared default against its own keyword's published sub-schema, evaluated outside tracing (pattern keywords need the real `re`)
DEFAULT_OK = [ref_ok(_RES[t]["properties"][k], _RES[t]["properties"][k]["default"]) for t, k in DEFAULTS]
'''

DEFAULT_VALID = '''
return DEFAULT_OK[sel]
'''

CREATE = '''
t = TYPES[sel]
ver = None if vi == 0 else (4.0 if vi == 1 else (5.4 if vi == 2 else (6.0 if vi == 3 else (7.6 if vi == 4 else (8.0 if vi == 5 else 8.2)))))
d = U.create(t, ver)
for k in SKIP:
    d.pop(k, None)
back = loads(dumps(d))
for k, v in d.items():
    if k == "__type__":
        continue
    got = back[k]
    if isinstance(v, str):
        if not (isinstance(got, str) and got.lower() == v.lower()):
            return False
    elif isinstance(v, list):
        if list(got) != v:
            return False
    elif got != v or type(got) is not type(v):
        return False
if ver is None:
    msgs = V.validate(back, schema_name=t)
else:
    msgs = Validator().validate(back, schema_name=t, version=ver)
return [m for m in msgs if "required" not in m["error"]] == []
'''

CREATE2 = '''
# objects handed out by create() are independent of each other and of the schema: editing one (lists in place included) does not
# change what the next create() returns
t = TYPES[sel]
ver = None if vi == 0 else (7.6 if vi == 1 else 8.0)
a = U.create(t, ver)
snap = [(k, list(v) if isinstance(v, list) else v) for k, v in a.items()]
for k, v in a.items():
    if isinstance(v, list):
        for i in range(len(v)):
            v[i] = 12345
        v.append(6789)
    elif k != "__type__":
        a[k] = "edited"
b = U.create(t, ver)
return [(k, list(v) if isinstance(v, list) else v) for k, v in b.items()] == snap
'''

INFO = {
    "explanation": "C19: the finite vocabulary product is posed to solvers: E-LALR bit-blasted BMC of the real parse table over symbolic slot "
                   "selections (all keyword slots of a type next to each other), validated against the real Parser; table / default / create "
                   "consistency by CrossHair over symbolic indices with the real loads / dumps / validate / create.",
    "files": ["mappyfile/mapfile.lark", "mappyfile/tokens.py", "mappyfile/parser.py", "mappyfile/transformer.py", "mappyfile/pprint.py",
              "mappyfile/ordereddict.py", "mappyfile/utils.py", "mappyfile/validator.py"],
    "functions": ["lark LALR parse table of mapfile.lark (states/actions/gotos/rules)", "mappyfile.parser.Parser.parse (re-tagging loop)", "mappyfile.parser.SYMBOL_ATTRIBUTES",
                  "mappyfile.transformer.MapfileTransformer.composite/plural", "mappyfile.ordereddict.DefaultOrderedDict.__missing__", "mappyfile.utils.create",
                  "mappyfile.pprint.PrettyPrinter._format", "mappyfile.validator.Validator.validate"],
    "bounds": {"vocab": "quick: ordered pairs of all short (<= 4 token) slots for 7 object types (symbol, style, class, label, layer, map, scalebar) + long slots of style / layer; thorough: pairs for all 19 types, triples for symbol / grid, long slots first / middle / last among context representatives for the 7 quick types",
               "bmc": "QF_BV, 12-bit state ids, steps/depth derived from the slots' own concrete runs, unwinding check (no member ends at a bound)",
               "versions": "None, 4.0, 5.4, 6.0, 7.6, 8.0, 8.2"},
    "outside": ["the contextual scanner is run per slot inside a body of the same type; that a slot scans to the same token types next to another slot is "
                "validated on sampled members each run, not proved", "keyword slots written as blocks (METADATA, POINTS, PATTERN, PROJECTION, CONFIG) are exercised by C01/C02 skeletons"],
    "assumptions": ["when Parser.parse inspects token i the top of the value stack is token i-1 (validated against the real parser each run)"],
    "stubs": [],
}


def obligations(tier, seed):
    from engine.core import Known
    known = Known()
    obs = []
    quick = tier == "quick"
    types = S.object_types()
    # slots / defaults listed as open known findings get their own obligation and are excluded from the families they would mask
    kf_vocab = {}
    kf_default = set()
    for f in known.open_for("C19"):
        ex = f.get("exclude", {})
        if ex.get("family") == "vocab":
            kf_vocab.setdefault(ex["type"], []).append(ex["key"])
        if ex.get("family") == "default":
            kf_default.add((ex["type"], ex["key"]))
    quick_short = ("symbol", "style", "class", "label", "layer", "map", "scalebar")     # re-tagging / block-vs-keyword ambiguities and the largest vocabularies
    quick_long = ("style", "layer")
    for t in types:
        for k in kf_vocab.get(t, []):
            obs.append(Ob(name=f"C19-VOCAB/{t}.{k}.known", kind="z3", z3_call=("engine.lalr", "vocab_query", {"type_": t, "family": "short", "nseg": 2, "only_key": k}),
                          timeout=1500, expect_cex=True, meta={"desc": f"{t}.{k} (listed known finding) followed by every other short slot", "functions": ["LALR table"]}))
        if quick and t not in quick_short:
            continue
        obs.append(Ob(name=f"C19-VOCAB/{t}.short", kind="z3", z3_call=("engine.lalr", "vocab_query", {"type_": t, "family": "short", "nseg": 2 if (quick or t not in ("symbol", "grid")) else 3, "exclude_keys": kf_vocab.get(t, [])}),
                      timeout=1500 if quick else 5000,
                      meta={"desc": f"{t}: every short keyword slot next to every other ({'pairs' if quick else 'triples'}) is accepted and reduced as attributes of one block",
                            "functions": ["LALR table", "Parser.parse re-tagging"]}))
        fams = ("long0",) if quick else ("long0", "long1", "long2")
        for fam in fams:
            if t not in (quick_long if quick else quick_short):
                continue
            obs.append(Ob(name=f"C19-VOCAB/{t}.{fam}", kind="z3", z3_call=("engine.lalr", "vocab_query", {"type_": t, "family": fam, "nseg": 2}),
                          timeout=1500 if quick else 5000,
                          meta={"desc": f"{t}: long slots (lists, ranges) in position {fam[-1]} among context representatives", "functions": ["LALR table"]}))
    obs.append(Ob(name="C19-MODEL/validate", kind="z3", z3_call=("engine.lalr", "model_validation", {}), timeout=900,
                  meta={"desc": "automaton + re-tagging model == real Parser on all single-slot documents and accept/reject texts", "functions": ["LALR table", "Parser.parse"]}))
    pairs = [(s["type"], s["key"], s["kind"], s.get("child")) for s in S.slots()
             if s["kind"] in ("object", "objlist") and s.get("child") not in (None, "metadata", "validation", "values", "connectionoptions", "projection", "points", "pattern")
             and s["key"] not in S.SPECIAL]
    for i in range(0, len(pairs), 4):
        chunk = pairs[i:i + 4]
        for j, pr in enumerate(chunk):
            src = TAB_PRE % dict(pairs=[pr]) + harness("h", [("sel", "int")], "sel == 0", TABLES)
            obs.append(Ob(name=f"C19-TABLES/{pr[0]}.{pr[1]}", source=src, pct=600, timeout=700,
                          meta={"desc": f"{pr[0].upper()} > {pr[3].upper()}: stored under '{pr[1]}' as {pr[2]}; auto-creating dict, printer and validator agree",
                                "functions": ["MapfileTransformer.composite", "DefaultOrderedDict.__missing__", "PrettyPrinter._format", "Validator.validate"]}))
    defaults = []
    for t in types:
        for k, p in S.expanded(t)["properties"].items():
            if isinstance(p, dict) and "default" in p:
                defaults.append((t, k))
    for i, (t, k) in enumerate(defaults):
        src = DEF_PRE % dict(pairs=[], types=[t], defaults=[(t, k)]) + harness("h", [("sel", "int")], "sel == 0", DEFAULT_VALID)
        obs.append(Ob(name=f"C19-DEFAULT/valid.{t}.{k}", source=src, pct=300, timeout=400, expect_cex=(t, k) in kf_default,
                      meta={"desc": f"declared default of {t}.{k} is valid for its own keyword (Draft-04 reference evaluator)", "functions": ["schemas/*.json"]}))
    for i, t in enumerate(types):
        skip = sorted(k for (tt, k) in kf_default if tt == t)
        src = DEF_PRE % dict(pairs=[], types=[t], defaults=[]) + f"SKIP = {skip!r}\n" + harness("h", [("sel", "int"), ("vi", "int")], "(sel == 0) & (vi >= 0) & (vi < 7)", CREATE)
        obs.append(Ob(name=f"C19-DEFAULT/create.{t}", source=src, pct=900, timeout=1000,
                      meta={"desc": f"create('{t}', version) for 7 versions prints, re-loads to the same values and validates apart from required keywords"
                                    + (f" (defaults listed as known findings left out: {skip})" if skip else ""),
                            "functions": ["utils.create", "PrettyPrinter", "Parser", "Validator.validate"]}))
    for t in types:
        if not any(isinstance(p, dict) and isinstance(p.get("default"), list) for p in S.expanded(t)["properties"].values()):
            continue
        src = DEF_PRE % dict(pairs=[], types=[t], defaults=[]) + "SKIP = []\n" + harness("h", [("sel", "int"), ("vi", "int")], "(sel == 0) & (vi >= 0) & (vi < 3)", CREATE2)
        obs.append(Ob(name=f"C19-DEFAULT/create-twice.{t}", source=src, pct=900, timeout=1000,
                      meta={"desc": f"create('{t}') twice with every default of the first result edited in place in between: the second result carries the declared defaults",
                            "functions": ["utils.create", "Validator.get_versioned_schema"]}))
    return obs
