"""C10 — expression rewriting preserves structure.

C10-BUILD  structural induction, one obligation per string-builder callback of the real MapfileTransformer called
           directly on tokens with symbolic values: the result contains the operands verbatim and in order, spells
           AND / OR / NOT, and adds parentheses only around the whole (never between operands).  For the `expression`
           rule the operand ranges over all balanced strings over { ( ) a " } up to a length bound and the result must
           be one balanced group that contains the operand verbatim (decided against an explicit counter loop).
C10-E2E    template-symbolic pipeline on expression skeletons in CLASS EXPRESSION / TEXT, LAYER FILTER, STYLE
           GEOMTRANSFORM, CLUSTER GROUP / FILTER with symbolic attribute names and string operands: the stored string
           equals the committed normal form (MapServer precedence, reviewed by hand), is printed verbatim, and the
           printed text parses back to the same string.
C10-PREC   (E-LALR) bit-blasted BMC of the real parse table on ( 1 OP1 2 OP2 3 ) with both operators symbolic over all 28 binary
           operator terminals: every pair is accepted, operators of different precedence classes reduce tighter-first, operators of
           the same class reduce left to right.
"""
from engine.core import Ob, HEADER, harness, chars, chr_expr, conj
from checks.tsp_common import Hole, PRELUDE as TSP_PRELUDE

BUILD_PRE = HEADER + '''
from lark.lexer import Token
from mappyfile.transformer import MapfileTransformer
T = MapfileTransformer()


def tok(v):
    t = Token("X", "x")              # Token is a str subclass: built from a concrete text, then given the symbolic value,
    t.value = v                      # exactly as the hole lexer does in the end-to-end obligations
    return t


def okc(c):
    return (c >= 32) & (c < 0x3000)


def sym3(c):
    # alphabet ( ) a " ' \\  encoded 0..5; the if-chain realises the selector, so each operand is a concrete string on its path
    return "(" if c == 0 else (")" if c == 1 else ("a" if c == 2 else ('"' if c == 3 else ("'" if c == 4 else chr(92)))))


def scan_groups(s):
    """(balanced, closes_early): parentheses outside string literals; a literal is closed by the quote character that opened it,
    and a quote preceded by a backslash does not close it (MapServer string syntax, as the scanner reads it)"""
    depth = 0
    quote = None
    early = False
    for i, ch in enumerate(s):
        if quote is not None:
            if ch == quote and s[i - 1] != chr(92):
                quote = None
        elif ch == '"' or ch == "'":
            quote = ch
        elif ch == "(":
            depth += 1
        elif ch == ")":
            depth -= 1
            if depth < 0:
                return False, False
            if depth == 0 and i != len(s) - 1:
                early = True
    return (depth == 0 and quote is None), early


def balanced(s):
    return scan_groups(s)[0]


def one_group(s):
    """s is exactly one parenthesised group: its first '(' is closed by its last ')'"""
    if len(s) < 2 or s[0] != "(" or s[-1] != ")":
        return False
    ok, early = scan_groups(s)
    return ok and not early
'''

BINARY = '''
a = {A}; b = {B}
r = T.{rule}([tok(a), tok(b)])
return r.value == {EXP}
'''

RULES = {
    "and_test": '"( " + a + " AND " + b + " )"',
    "or_test": '"( " + a + " OR " + b + " )"',
    "add": 'a + " + " + b',
    "sub": 'a + " - " + b',
    "mul": 'a + " * " + b',
    "div": 'a + " / " + b',
    "power": 'a + " ^ " + b',
}

OTHER = {
    "comparison": ('''
a = {A}; b = {B}
ops = [">=", "<", "=*", "==", "=", "!=", "~", "~*", ">", "%", "<=", "IN", "in", "NE", "eq", "LE", "lt", "GE", "gt", "LIKE"]
op = ops[oi]
r = T.comparison([tok(a), T.compare_op([tok(op)]), tok(b)])
return r.value == "( " + a + " " + op + " " + b + " )"
''', [("oi", "int")], "(oi >= 0) & (oi < 20)"),
    "not_expression": ('''
a = {A}
r = T.not_expression([tok(a)])
return r.value == "NOT " + a
''', [], ""),
    "neg": ('''
a = {A}
return T.neg([tok(a)]).value == "-" + a
''', [], ""),
    "func_call": ('''
a = {A}; b = {B}
params = T.func_params([tok(a), tok(b), tok(7)])
r = T.func_call([tok("tostring"), params])
return params == a + "," + b + ",7" and r.value == "(tostring(" + a + "," + b + ",7))"
''', [], ""),
    "attr_bind": ('''
a = {A}
return T.attr_bind([tok(a)]).value == "[" + a + "]"
''', [], ""),
    "passthrough": ('''
a = {A}
return T.regexp([tok(a)]).value == a and T.runtime_var([tok(a)]).value == a and T.string([tok(a)]).value == a and T.path([tok(a)]).value == a
''', [], ""),
}

GROUP = '''
# operand: every balanced string over ( ) a " of this length (the children of `expression` are built by the other rules)
x = {X}
if not balanced(x):
    return True
r = T.expression([tok(x)]).value
if not (r == x or r == "(" + x + ")"):
    return False                     # the operand is kept verbatim; at most one enclosing pair is added
if not one_group(r):
    return False                     # the stored expression is one parenthesised group (so it can be read back as `( ... )`)
if one_group(x) and r != x:
    return False                     # an operand that already is one group is not wrapped again (idempotence)
return True
'''

COMPOSED = '''
# operands as the other builders really produce them: one or two groups "( t )" / "(t)" / t joined by an arithmetic operator
def grp(kind, t):
    return "( " + t + " )" if kind == 0 else ("(" + t + ")" if kind == 1 else t)
def inner(sel):
    return "[a] % 2" if sel == 0 else ("( [b] = 1 )" if sel == 1 else "x")
g1 = grp(k1, inner(t1))
g2 = grp(k2, inner(t2))
op = " + " if o == 0 else (" * " if o == 1 else " - ")
x = (g1 + op + g2) if two else g1
if not balanced(x):
    return True
r = T.expression([tok(x)]).value
if not (r == x or r == "(" + x + ")"):
    return False
if not one_group(r):
    return False                     # "( a ) + ( b )" starts with "( " and ends with " )" but is not one group: it must be wrapped
if one_group(x) and r != x:
    return False
return True
'''

E2E_TEXT = '''LAYER
  NAME "x"
  TYPE POINT
  FILTER ( [A01] = "H02" AND [A03] > 5 OR NOT [A04] IN "H05" )
  CLUSTER
    GROUP ( [A06] = 'H07' )
    FILTER ( [A08] != 1 && ! ( [A09] ~ "H10" ) || [A11] <= 2.5 )
  END
  CLASS
    EXPRESSION ( [A12] + [A13] * [A14] - 2 ^ 3 / -[A15] >= ( [A16] + 1 ) * 2 )
    TEXT ( tostring( [A17], "H18" ) + "H19" )
    STYLE
      GEOMTRANSFORM ( buffer ( [shape], [A20] ) )
    END
  END
  CLASS
    EXPRESSION ( ( [A21] EQ "H22" ) and ( ( [A23] LT 3 ) or ( [A24] =* 'H25' ) ) )
    TEXT ( "[item]" + ' H27 ' )
  END
  CLASS
    EXPRESSION {abc,de f}
    TEXT ( ( [A30] ) + ( [A31] ) )
  END
  CLASS
    EXPRESSION /H32/i
  END
END'''

# committed normal forms (MapServer precedence: OR < AND < NOT < comparison < + - < * / ^ and unary minus); reviewed by hand
E2E_EXP = {
    "filter": '( ( ( [A01] = "H02" ) AND ( [A03] > 5 ) ) OR NOT ( [A04] IN "H05" ) )',
    "cluster.group": "( [A06] = 'H07' )",
    "cluster.filter": '( ( ( [A08] != 1 ) AND NOT ( [A09] ~ "H10" ) ) OR ( [A11] <= 2.5 ) )',
    "c0.expression": '( [A12] + [A13] * [A14] - 2 ^ 3 / -[A15] >= ([A16] + 1) * 2 )',
    "c0.text": '((tostring([A17],"H18")) + "H19")',
    "c0.geomtransform": '(buffer([shape],[A20]))',
    "c1.expression": "( ( [A21] EQ \"H22\" ) AND ( ( [A23] LT 3 ) OR ( [A24] =* 'H25' ) ) )",
    "c1.text": "(\"[item]\" + ' H27 ')",
    "c2.expression": '{abc,de f}',
    "c2.text": '(([A30]) + ([A31]))',
    "c3.expression": '/H32/i',
}

INFO = {
    "explanation": "C10: string builders of the real MapfileTransformer called on tokens with symbolic values (structural induction per rule; the "
                   "`expression` rule over all balanced operands up to a length bound against an explicit group counter), and expression skeletons "
                   "through the template-symbolic pipeline against committed normal forms, printed verbatim and re-read.",
    "files": ["mappyfile/transformer.py", "mappyfile/mapfile.lark", "mappyfile/pprint.py", "mappyfile/quoter.py"],
    "functions": ["mappyfile.transformer.MapfileTransformer.comparison/and_test/or_test/not_expression/expression/add/sub/mul/div/power/neg/func_call/func_params/attr_bind/list/regexp/runtime_var",
                  "mappyfile.transformer.is_parenthesised_group", "mappyfile.pprint.PrettyPrinter.format_value", "mappyfile.parser.Parser.parse"],
    "bounds": {"operand_len": "2 symbolic code points (32..0x2FFF) for binary builders", "group_operand": "all strings over ( ) a of length <= 8 (quick) / 10 (thorough) and over ( ) a \" ' backslash of length <= 5 / 7",
               "e2e": "11 expressions, 32 holes (attribute names 2 chars, strings 2 code points)"},
    "outside": ["expression trees beyond the skeletons are covered by induction (per-rule obligations + C10-PREC on operator pairs), not by end-to-end runs", "NOT / unary minus / function calls inside the precedence family",
                "back-quoted strings and % runtime variables only as pass-through tokens"],
    "assumptions": ["hole substitution justified by C05's scanner lemmas"],
    "stubs": ["hole lexer"],
}


def obligations(tier, seed):
    obs = []
    A, B = chr_expr("a", 2), chr_expr("b", 2)
    ab = chars("a", 2) + chars("b", 2)
    pre_ab = conj([f"okc({n})" for n, _ in ab])
    for rule, exp in RULES.items():
        src = BUILD_PRE + harness("h", ab, pre_ab, BINARY.format(A=A, B=B, rule=rule, EXP=exp))
        obs.append(Ob(name=f"C10-BUILD/{rule}", source=src, pct=200, timeout=300,
                      meta={"desc": f"{rule}: operands verbatim, in order, canonical spelling, no parentheses between operands", "functions": [f"MapfileTransformer.{rule}"]}))
    for rule, (body, extra, pre2) in OTHER.items():
        src = BUILD_PRE + harness("h", ab + extra, conj([pre_ab, pre2]), body.format(A=A, B=B))
        obs.append(Ob(name=f"C10-BUILD/{rule}", source=src, pct=300, timeout=400,
                      meta={"desc": f"{rule}: elements verbatim and in order", "functions": [f"MapfileTransformer.{rule}"]}))
    variants = [(L, 3) for L in (range(2, 9) if tier == "quick" else range(2, 11))] + [(L, 6) for L in (range(2, 6) if tier == "quick" else range(2, 8))]
    # operands that start with "(" and end with ")" are the rule's decisive case: enumerate their inside over the full alphabet
    variants += [(-L, 6) for L in (range(1, 6) if tier == "quick" else range(1, 7))]
    for L, K in variants:
        wrapped = L < 0
        L = abs(L)
        cs = chars("g", L)
        X = " + ".join(f"sym3(g{i})" for i in range(L))
        if wrapped:
            X = '"(" + ' + X + ' + ")"'
        pre = conj([f"({n} >= 0) & ({n} < {K})" for n, _ in cs])
        src = BUILD_PRE + harness("h", cs, pre, GROUP.format(X=X))
        obs.append(Ob(name=f"C10-BUILD/expression.{'W' if wrapped else 'L'}{L}.K{K}", source=src, pct=900, timeout=1000,
                      meta={"desc": f"expression rule on every balanced operand of length {L} over ( ) a \": result is one group containing the operand verbatim; groups are not re-wrapped",
                            "bounds": {"L": L, "alphabet": "( ) a \""}, "functions": ["MapfileTransformer.expression", "is_parenthesised_group"]}))
    src = BUILD_PRE + harness("h", [("k1", "int"), ("k2", "int"), ("t1", "int"), ("t2", "int"), ("o", "int"), ("two", "bool")],
                              "(k1 >= 0) & (k1 < 3) & (k2 >= 0) & (k2 < 3) & (t1 >= 0) & (t1 < 3) & (t2 >= 0) & (t2 < 3) & (o >= 0) & (o < 3)", COMPOSED)
    obs.append(Ob(name="C10-BUILD/expression.composed", source=src, pct=600, timeout=700,
                  meta={"desc": "expression rule on operands shaped like the builders' own output: one or two groups ( t ) / (t) / t joined by + * -: the result is one group containing the operand",
                        "functions": ["MapfileTransformer.expression", "is_parenthesised_group"]}))
    # precedence and associativity of the real LALR table over every pair of binary operator spellings (E-LALR)
    obs.append(Ob(name="C10-PREC/pairs", kind="z3", z3_call=("engine.lalr", "prec_query", {}), timeout=1800,
                  meta={"desc": "( 1 OP1 2 OP2 3 ): OP1, OP2 symbolic over all 28 binary operator terminals (OR ||, AND &&, 19 comparison spellings, + -, * / ^): accepted; the tighter "
                                "class reduces first; equal classes reduce left to right", "functions": ["LALR table of mapfile.lark: or_test / and_test / comparison / sum / product"]}))
    # end to end
    holes = []
    import re
    for mk in sorted(set(re.findall(r"[AH]\d\d", E2E_TEXT))):
        if mk.startswith("A"):
            holes.append(Hole(mk, "name", 2))
    # string operands: their quote style as written
    for mk, q in (("H02", '"'), ("H05", '"'), ("H07", "'"), ("H10", '"'), ("H18", '"'), ("H19", '"'), ("H22", '"'), ("H25", "'")):
        holes.append(Hole(mk, "str", 2, q))
    params, pre, build = [], [], []
    for h in holes:
        params += h.params()
        pre += h.pre()
        build.append(h.build())
    holes1 = "{" + ", ".join(f"{h.src_token()!r}: {h.src_value()}" for h in holes) + "}"
    mp = "{" + ", ".join(f"{h.marker!r}: {h.var}" for h in holes) + "}"
    body = "\n".join(build) + f'''
m = {mp}
d = M.transform(PIPE.parse(TEXT, {holes1}))
got = {{"filter": d["filter"], "cluster.group": d["cluster"]["group"], "cluster.filter": d["cluster"]["filter"]}}
for i, c in enumerate(d["classes"]):
    for k in ("expression", "text"):
        if k in c:
            got["c%d.%s" % (i, k)] = c[k]
    for st in c.get("styles", []):
        got["c%d.geomtransform" % i] = st["geomtransform"]
for k, tmpl in EXP.items():
    if got.get(k) != fill(tmpl, m):
        return False
lines = PP._format(d)
want = ["    FILTER " + fill(EXP["filter"], m), "        EXPRESSION " + fill(EXP["c0.expression"], m), "        TEXT " + fill(EXP["c2.text"], m),
        "            GEOMTRANSFORM " + fill(EXP["c0.geomtransform"], m), "        GROUP " + fill(EXP["cluster.group"], m)]
for w in want:
    if w not in lines:
        return False                     # expression-typed values are written verbatim, unquoted
return True
'''
    defs = f'''
TEXT = {E2E_TEXT!r}
EXP = {E2E_EXP!r}
import re as _re
_RX = _re.compile(r"[AH]\\d\\d")


def fill(tmpl, m):
    out, pos = "", 0
    for mt in _RX.finditer(tmpl):
        out = out + tmpl[pos:mt.start()] + (m[mt.group(0)] if mt.group(0) in m else mt.group(0))
        pos = mt.end()
    return out + tmpl[pos:]
'''
    src = TSP_PRELUDE + defs + harness("h", params, conj(pre), body)
    obs.append(Ob(name="C10-E2E/normal-forms", source=src, pct=900, timeout=1000,
                  meta={"desc": "11 expressions in FILTER / GROUP / EXPRESSION / TEXT / GEOMTRANSFORM positions with symbolic names and string operands: stored == committed normal form; printed verbatim",
                        "functions": ["Parser.parse", "MapfileTransformer.*", "PrettyPrinter.format_value"], "stubs": ["hole lexer"]}))
    # re-parse of the normal form: C01's expression skeleton machinery on the printed text
    from checks.tsp_common import rt_source
    from checks.C01 import SK as C01_SK
    etext, eholes = C01_SK["expr"]
    src2, _, _ = rt_source(etext, [Hole(h.marker, h.kind, h.L, h.quote) for h in eholes], idem=True)
    obs.append(Ob(name="C10-E2E/reparse", source=src2, pct=900, timeout=1000,
                  meta={"desc": "the printed normal forms parse back to the same strings and print identically (second pass)", "functions": ["Parser.parse", "MapfileTransformer.*"], "stubs": ["hole lexer"]}))
    return obs
