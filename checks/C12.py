"""C12 — calls are pure and history-independent (the thread-schedule clause is outside this technique, see INFO).

C12-PURE   dumps (without separate_complex_types), validate (without add_comments), find/findall/findunique/findkey on
           arguments with symbolic leaves: a deep snapshot (keys, order, hidden keys, values) is unchanged afterwards; reading
           hidden keys never auto-creates entries.
C12-REUSE  one inductive step per worker object from a dirtied prior state: a Parser that has parsed another document (with
           comments; a failing parse; arbitrary stale entries in its comment buffers), a MapfileToDict / PrettyPrinter that has
           processed another document: the next result on a skeleton with symbolic holes equals a fresh object's.
           (Validator caches: C09-HIST.)
"""
from engine.core import Ob, HEADER, harness, chars, chr_expr, conj
from checks.tsp_common import PRELUDE as TSP_PRELUDE, Hole
from checks import C16

PURE_PRE = C16.PRELUDE + '''
import mappyfile
from mappyfile.validator import Validator
import mappyfile.validator as MV


class _J:
    dumps = staticmethod(lambda x, **k: x)
    loads = staticmethod(lambda x, **k: x)
    load = staticmethod(MV.json.load)


MV.json = _J
VAL = Validator()
list(VAL.get_schema_validator("class").iter_errors({"__type__": "class"}))


def snap(x):
    """deep snapshot: classes, key order, hidden keys, values"""
    if isinstance(x, dict):
        return (type(x).__name__, [(k, snap(v)) for k, v in dict.items(x)])
    if isinstance(x, (list, tuple)):
        return (type(x).__name__, [snap(v) for v in x])
    return x
'''

PURE_DUMPS = '''
s = {S}
n = 7 if ni else -3
d = doc(s, n)
d["layers"][0]["__position__"] = {{"line": n, "column": 2}}
before = snap(d)
pp = PrettyPrinter(indent=indent, quote="'" if sq else '"', end_comment=ec, align_values=al, separate_complex_types=False)
pp.validator = _VALIDATOR
t1 = pp.pprint(d)
if snap(d) != before:
    return False
t2 = pp.pprint(d)
return snap(d) == before and t1 == t2
'''

PURE_VALIDATE = '''
s = {S}
c = D("class"); c["name"] = s; c["__position__"] = {{"line": 1, "column": 1}}
st = D("style"); st["width"] = -1 if w else 3; st["zzunknown"] = s; st["__position__"] = {{"line": 2, "column": 2}}
c["styles"] = [st]
c["Keyimage"] = s
before = snap(c)
msgs = VAL.validate(c, schema_name="class")
msgs2 = VAL.validate(c, schema_name="class")
return snap(c) == before and [m["message"] for m in msgs] == [m["message"] for m in msgs2] and "__comments__" not in st
'''

REUSE_DEFS = '''
from lark.lexer import Token
DIRTY = tsp.Pipe(include_comments=True)             # a second, independent Parser object that gets a history
DIRTY_PLAIN = tsp.Pipe()
T_OTHER = """# other
MAP
  NAME "other" # trailing
  LAYER
    TYPE POINT
    # above class
    CLASS
      NAME "c"
    END
    # left over: belongs to no node
  END
  # another one before the closing END
END
# and one after the end"""
TEXT = {text!r}
'''

REUSE_PARSER = '''
{BUILD}
holes = {HOLES}
sub = {SUB}
# history on the reused objects
if h1:
    MC.transform(DIRTY.parse(T_OTHER))
if h2:
    try:
        DIRTY.P.parse("MAP NAME END")                  # a failing parse
    except Exception:
        pass
if h3:
    t = Token("COMMENT", "# stale"); t.line = stale
    DIRTY.P._comments.append(t)
    DIRTY.P.comments_dict = {{stale: "# stale"}}
if h1:
    M.transform(DIRTY_PLAIN.parse(T_OTHER))
d_first = MC.transform(DIRTY.parse(TEXT, holes, None, sub))      # the very next parse on the dirtied Parser
got_cl = PP._format(d_first)                                       # printed with its comments: a leaked comment is visible here
got_c = tsp.plain(d_first)
again = PP._format(MC.transform(DIRTY.parse(TEXT, holes, None, sub)))
if again != got_cl:
    return False                                                   # and a repeat gives the same again
got_p = M.transform(DIRTY_PLAIN.parse(TEXT, holes))
fresh_cl = PP._format(MapfileToDict(include_comments=True).transform(PIPEC.parse(TEXT, holes, None, sub)))
fresh_p = MapfileToDict().transform(PIPE.parse(TEXT, holes))
return got_cl == fresh_cl and tsp.plain(got_p) == tsp.plain(fresh_p) and got_c == tsp.plain(fresh_p)
'''

REUSE_PRINTER = '''
s = {S}
n = 7 if ni else -3
used = PrettyPrinter(indent=2, end_comment=True, align_values=al)
used.validator = _VALIDATOR
other = D("layer"); other["name"] = "zz"; other["type"] = "point"; other["metadata"] = CI(CI); other["metadata"]["__type__"] = "metadata"; other["metadata"]["k"] = s
used.pprint(other)
try:
    bad = D("layer"); bad["name"] = CI(CI)
    used.pprint(bad)                                  # a failing print (empty dict value)
except ValueError:
    pass
got = used.pprint(doc(s, n))
fresh = PrettyPrinter(indent=2, end_comment=True, align_values=al)
fresh.validator = _VALIDATOR
return got == fresh.pprint(doc(s, n))
'''

INFO = {
    "explanation": "C12: purity by deep snapshots around the real dumps/validate (find* in C18) on dicts with symbolic leaves; history independence as one "
                   "inductive step per worker object (Parser incl. comment buffers and failed parses, MapfileToDict, PrettyPrinter) compared with fresh objects.",
    "files": ["mappyfile/parser.py", "mappyfile/transformer.py", "mappyfile/pprint.py", "mappyfile/validator.py", "mappyfile/dictutils.py", "mappyfile/ordereddict.py", "mappyfile/utils.py"],
    "functions": ["mappyfile.pprint.PrettyPrinter.pprint/_format/separate_complex", "mappyfile.validator.Validator.validate/_get_errors/convert_lowercase",
                  "mappyfile.parser.Parser.parse/_assign_comments", "mappyfile.transformer.MapfileToDict.transform"],
    "bounds": {"leaves": "2 symbolic code points, 2 numbers", "history": "one prior document / failed parse / stale buffer entries per worker object"},
    "outside": ["THREAD SCHEDULES: CrossHair executes one thread; no symbolic executor for CPython thread interleavings exists in this sandbox and the code has no "
                "module-level mutable state to model (reading, not a verdict). The concurrency clause of C12 is NOT decided.",
                "find/findall/findunique/findkey purity is asserted in C18-FIND (items unchanged)", "Validator cache histories: C09-HIST"],
    "assumptions": [],
    "stubs": ["json in validator (identity)", "hole lexer", "comment substitution"],
}

SK_TEXT = '''# CA
LAYER
  NAME "H01" # CB
  TYPE POLYGON
  METADATA
    "k1" "H02" # CC
  END
  CLASS
    NAME 'H03'
    STYLE
      WIDTH 2
    END
  END
END'''


def obligations(tier, seed):
    obs = []
    cs = chars("c", 2)
    S = chr_expr("c", 2)
    cpre = [f"okc({n})" for n, _ in cs]
    for ind in (0, 4):
        src = PURE_PRE + harness("h", cs + [("ni", "bool"), ("indent", "int"), ("sq", "bool"), ("ec", "bool"), ("al", "bool")],
                                 conj(cpre + [f"indent == {ind}", "sq == ec"]), PURE_DUMPS.format(S=S))
        obs.append(Ob(name=f"C12-PURE/dumps.indent{ind}", source=src, pct=600, timeout=700,
                      meta={"desc": "deep snapshot of the dict unchanged by pprint (twice); same text both times", "functions": ["PrettyPrinter.pprint"]}))
    src = PURE_PRE + harness("h", cs + [("w", "bool")], conj(cpre), PURE_VALIDATE.format(S=S))
    obs.append(Ob(name="C12-PURE/validate", source=src, pct=600, timeout=700,
                  meta={"desc": "deep snapshot of the dict unchanged by validate (with errors, mixed-case keys, positions); same messages twice", "functions": ["Validator.validate"], "stubs": ["json in validator"]}))
    holes = [Hole("H01", L=2), Hole("H02", L=2), Hole("H03", L=2, quote="'")]
    params, pre, build = [], [], []
    for h in holes:
        params += h.params(); pre += h.pre(); build.append(h.build())
    ccs = chars("k", 2)
    params += ccs
    pre += [f"({n} >= 33) & ({n} < 0x1680) & ({n} != 0x85) & ({n} != 0xa0)" for n, _ in ccs]
    build.append("v_cb = '# ' + " + chr_expr("k", 2))
    holes1 = "{" + ", ".join(f"{h.src_token()!r}: {h.src_value()}" for h in holes) + "}"
    for h1 in (0, 1):
        for h2 in (0, 1):
            p2 = params + [("h1", "bool"), ("h2", "bool"), ("h3", "bool"), ("stale", "int")]
            pr = conj(pre + ["h1" if h1 else "not h1", "h2" if h2 else "not h2", "(stale >= 1) & (stale <= 14)"])
            src = TSP_PRELUDE + REUSE_DEFS.format(text=SK_TEXT) + harness("h", p2, pr, REUSE_PARSER.format(BUILD="\n".join(build), HOLES=holes1, SUB="{'# CB': v_cb}"))
            obs.append(Ob(name=f"C12-REUSE/parser.h{h1}{h2}", source=src, pct=900, timeout=1000,
                          meta={"desc": f"reused Parser / MapfileToDict after other document={bool(h1)}, failed parse={bool(h2)}, stale comment buffers (symbolic presence and line): next result == fresh objects'",
                                "functions": ["Parser.parse", "Parser._assign_comments", "MapfileToDict.transform"], "stubs": ["hole lexer", "comment substitution"]}))
    src = PURE_PRE + harness("h", cs + [("ni", "bool"), ("al", "bool")], conj(cpre), REUSE_PRINTER.format(S=S))
    obs.append(Ob(name="C12-REUSE/printer", source=src, pct=600, timeout=700,
                  meta={"desc": "a PrettyPrinter that printed another document and failed on one prints the next document like a fresh one", "functions": ["PrettyPrinter.pprint"]}))
    return obs
