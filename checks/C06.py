"""C06 — formatting options never change content.

Decomposition (DESIGN §4 C06):
  C06-OPT   for every option combination the printed line list is  ws(options) + KEY + gap(options) + VALUE  with KEY / VALUE
            tokens that do not depend on the options except for the quote character, END lines differing only by a trailing
            `# TYPE` comment (the C16 layout obligations, whose oracle builds every option's lines from one option-free
            token spec);
  C06-LEX   lines that differ only in blanks, line breaks, a trailing # comment and the quote style scan to the same tokens
            (E-LEX lemmas: ignored runs, quoted-string classes for both quotes);
  C06-REL   template-symbolic: text printed under an option set, re-read, gives the same content as the source
            (C04-FIX's harness under each option set, for all hole contents);
  C06-SEP   separate_complex_types only moves block-valued keys after the simple keys of the same object, keeping the relative
            order inside each group - for every key order (symbolic permutation), at root and nested level.
"""
from engine.core import Ob, HEADER, harness
from checks import C16, C05, C04

SEP_PRE = C16.PRELUDE + '''
import itertools
PERMS = list(itertools.permutations(range(5)))


def perm_of(pi, base):
    # if-chain over the chunk's permutations: realises the selector, everything after is concrete per path
    for j in range(CHUNK):
        if pi == j:
            return PERMS[base + j]
    return PERMS[base]
'''

SEP = '''
# five keys in a symbolic order: two simple, a singleton block, a list of blocks, a key-value block
def build():
    items = {
        0: ("name", "n"),
        1: ("status", "on"),
        2: ("web", D("web")),
        3: ("layers", [D("layer")]),
        4: ("metadata", CI(CI)),
    }
    m = D("map")
    for i in perm_of(pi, BASE):
        k, v = items[i]
        m[k] = v
    m["web"]["imagepath"] = "/tmp/"
    m["metadata"]["__type__"] = "metadata"; m["metadata"]["k"] = "v"
    ly = m["layers"][0]
    # nested level: `symbol` is a plain keyword there, not a block
    if nested:
        ly["classes"] = [D("class")]; ly["symbol"] = "x"; ly["name"] = "l"
    else:
        ly["name"] = "l"; ly["type"] = "point"
    return m
m = build()
order_before = [k for k in m.keys() if k != "__type__"]
pp = PrettyPrinter(indent=2, separate_complex_types=sep)
pp.validator = _VALIDATOR
lines = pp._format(m)
order_after = [k for k in m.keys() if k != "__type__"]
simple = [k for k in order_before if k in ("name", "status")]
cplx = [k for k in order_before if k not in ("name", "status")]
if sep:
    if order_after != simple + cplx:
        return False                      # simple keys first, each group in its original relative order
else:
    if order_after != order_before:
        return False                      # without the option nothing moves
# content is untouched either way
ref = build()
def bag(x):
    # content without order
    if isinstance(x, dict):
        return sorted((k, bag(v)) for k, v in dict.items(x))
    if isinstance(x, list):
        return [bag(v) for v in x]
    return x
same = bag(m) == bag(ref)
ly_keys = [k for k in m["layers"][0].keys() if k != "__type__"]
if sep and nested:
    same = same and ly_keys == ["symbol", "name", "classes"]
return same
'''


def obligations(tier, seed):
    obs = []
    for o in C16.layout_obs("C06-OPT", tier):
        obs.append(o)
    for o in C05.obligations(tier, seed):
        if o.name.startswith("C05-LEX/ignored") or o.name.startswith("C05-LEX/quoted") or o.name.startswith("C05-LEX/validate"):
            o.name = o.name.replace("C05-LEX/", "C06-LEX/")
            obs.append(o)
    for o in C04.obligations(tier, seed):
        if o.name.startswith("C04-FIX/"):
            o.name = o.name.replace("C04-FIX/", "C06-REL/")
            obs.append(o)
    chunk = 10
    for nested in (0, 1):
        for sep in (0, 1):
            for base in range(0, 120, chunk):
                if tier == "quick" and base % 30 != 0:
                    continue                      # quick: 40 of the 120 key orders; thorough: all
                src = SEP_PRE + f"CHUNK = {chunk}\nBASE = {base}\n" + harness("h", [("pi", "int"), ("sep", "bool"), ("nested", "bool")],
                                        f"(pi >= 0) & (pi < {chunk}) & ({'sep' if sep else 'not sep'}) & ({'nested' if nested else 'not nested'})", SEP)
                obs.append(Ob(name=f"C06-SEP/sep{sep}.nested{nested}.p{base}", source=src, pct=600, timeout=700,
                              meta={"desc": f"separate_complex_types over key orders {base}..{base + chunk - 1} of 120: simple keys first, stable inside each group, content unchanged; off = nothing moves",
                                    "functions": ["PrettyPrinter.separate_complex", "PrettyPrinter.is_complex_type", "dictutils.dict_move_to_end"]}))
    return obs


INFO = {
    "explanation": "C06: option-independence of the printed tokens (layout oracle built from one option-free token spec, all option values enumerated, leaves "
                   "symbolic), scanner lemmas turning blank / line-break / comment / quote differences into equal token streams, re-read of text printed "
                   "under several option sets for all hole contents, and separate_complex_types over every key order.",
    "files": ["mappyfile/pprint.py", "mappyfile/utils.py", "mappyfile/quoter.py", "mappyfile/dictutils.py", "mappyfile/mapfile.lark"],
    "functions": ["mappyfile.pprint.PrettyPrinter.*", "mappyfile.dictutils.dict_move_to_end", "lark scanner (ignored terminals, quoted strings)"],
    "bounds": {"options": "indent {0,1,4} quick / 0..8 thorough x spacer x quote x end_comment x align_values; newlinechar LF/CRLF/space in C16-JOIN / C04 option sets",
               "sep": "all 120 orders of 5 keys, root and nested level"},
    "outside": ["the full 1 728-set cross product on corpus files", "newlinechar ' ' with comments (the property excludes it)"],
    "assumptions": ["composition of the layout relation with the scanner lemmas is argued in DESIGN §4 C06, not mechanised"],
    "stubs": ["hole lexer in C06-REL"],
}
