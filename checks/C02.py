"""C02 — the parsed dictionary follows the documented text -> dict contract.

C02-DICT: structural skeletons (hand-written against docs/transformer.rst: lower-case __type__ and keys in source order,
plural lists / singleton nesting, repeated keywords -> lists, number / boolean typing, quote stripping, hex colour
lower-casing, key-value block key lower-casing and last-value-wins, PROJECTION list, POINTS / PATTERN pair lists and the
extra level when POINTS repeats, CONFIG, several roots -> list, SYMBOLSET).  String contents and attribute names are
symbolic holes; the complete dictionary (key order included) must equal the *committed* expected structure with the
symbolic values at exactly their places and nowhere else.
"""
from engine.core import Ob, harness, conj
from checks.tsp_common import Hole, PRELUDE

SK = {}

SK["map"] = ('''MAP
  NAME "H01"
  name 'H02'
  EXTENT -180 -90.5 180 90
  SIZE 800 600
  ANGLE 10.5
  IMAGECOLOR "#FFaa00"
  PROJECTION
    "init=epsg:4326"
    "H03"
  END
  CONFIG "MS_ERRORFILE" "H04"
  config 'proj_lib' x
  Config "PROJ_LIB" 'y'
  WEB
    METADATA
      "WMS_Title" "H05"
      'wms_title' "H06"
      k v
    END
    VALIDATION
      "q" "H07"
    END
  END
  LAYER
    NAME "l1"
    TYPE POINT
    PROCESSING "H08"
    PROCESSING "b=2"
    TRANSFORM TRUE
    FEATURE
      POINTS 1 1 2 2.5 END
    END
    CLASS
      NAME "c1"
      STYLE
        PATTERN 1 2 3 4 END
        WIDTH 2
      END
      STYLE
        COLOR 1 2 3
      END
      LABEL
        SIZE 8
        PARTIALS FALSE
      END
    END
    CLASS
      NAME "c2"
    END
  END
  LAYER
    NAME "l2"
    TYPE LINE
    FEATURE
      POINTS 1 1 END
      POINTS 2 2 3 3 END
    END
  END
  SCALEBAR
    STATUS OFF
  END
END''',
             [Hole("H01"), Hole("H02", quote="'"), Hole("H03"), Hole("H04"), Hole("H05"), Hole("H06"), Hole("H07"), Hole("H08")],
             # expected content; H01 does not occur: a keyword given twice keeps its last value; "WMS_Title" then 'wms_title': last wins
             [('__type__', 'map'), ('name', 'H02'), ('extent', [-180, -90.5, 180, 90]), ('size', [800, 600]), ('angle', 10.5), ('imagecolor', '#ffaa00'),
              ('projection', ['init=epsg:4326', 'H03']), ('config', [('ms_errorfile', 'H04'), ('proj_lib', 'y')]),
              ('web', [('__type__', 'web'), ('metadata', [('wms_title', 'H06'), ('k', 'v'), ('__type__', 'metadata')]),
                       ('validation', [('q', 'H07'), ('__type__', 'validation')])]),
              ('layers', [[('__type__', 'layer'), ('name', 'l1'), ('type', 'POINT'), ('processing', ['H08', 'b=2']), ('transform', True),
                           ('features', [[('__type__', 'feature'), ('points', [[1, 1], [2, 2.5]])]]),
                           ('classes', [[('__type__', 'class'), ('name', 'c1'),
                                         ('styles', [[('__type__', 'style'), ('pattern', [[1, 2], [3, 4]]), ('width', 2)], [('__type__', 'style'), ('color', [1, 2, 3])]]),
                                         ('labels', [[('__type__', 'label'), ('size', 8), ('partials', False)]])],
                                        [('__type__', 'class'), ('name', 'c2')]])],
                          [('__type__', 'layer'), ('name', 'l2'), ('type', 'LINE'),
                           ('features', [[('__type__', 'feature'), ('points', [[[1, 1]], [[2, 2], [3, 3]]])]])]]),
              ('scalebar', [('__type__', 'scalebar'), ('status', 'OFF')])])

SK["roots"] = ('''LAYER
  NAME "H01"
  TYPE RASTER
  CLUSTER
    MAXDISTANCE 10
    REGION "ellipse"
  END
  COMPOSITE
    OPACITY 50
    COMPFILTER "H02"
    COMPFILTER "blur(3)"
  END
  COMPOSITE
    OPACITY 60
  END
  GRID
    LABELFORMAT "DD"
  END
  JOIN
    NAME "H03"
    TABLE "t.dbf"
    FROM "a"
    TO "b"
    TYPE ONE-TO-ONE
  END
  SCALETOKEN
    NAME "%pri%"
    VALUES
      "0" "H04"
      "1000" "b"
    END
  END
  CLASS
    LEADER
      GRIDSTEP 5
      MAXDISTANCE 10
    END
    LABEL
      TEXT "H05"
      STYLE
        GEOMTRANSFORM "labelpoly"
      END
    END
  END
END
CLASS
  NAME "H06"
  KEYIMAGE 'H07'
END''',
               [Hole("H01"), Hole("H02"), Hole("H03"), Hole("H04"), Hole("H05", "xstr"), Hole("H06"), Hole("H07", quote="'")],
               [[('__type__', 'layer'), ('name', 'H01'), ('type', 'RASTER'),
                 ('cluster', [('__type__', 'cluster'), ('maxdistance', 10), ('region', 'ellipse')]),
                 ('composites', [[('__type__', 'composite'), ('opacity', 50), ('compfilter', ['H02', 'blur(3)'])], [('__type__', 'composite'), ('opacity', 60)]]),
                 ('grid', [('__type__', 'grid'), ('labelformat', 'DD')]),
                 ('joins', [[('__type__', 'join'), ('name', 'H03'), ('table', 't.dbf'), ('from', 'a'), ('to', 'b'), ('type', 'ONE-TO-ONE')]]),
                 ('scaletokens', [[('__type__', 'scaletoken'), ('name', '%pri%'), ('values', [('0', 'H04'), ('1000', 'b'), ('__type__', 'values')])]]),
                 ('classes', [[('__type__', 'class'), ('leader', [('__type__', 'leader'), ('gridstep', 5), ('maxdistance', 10)]),
                               ('labels', [[('__type__', 'label'), ('text', 'H05'), ('styles', [[('__type__', 'style'), ('geomtransform', 'labelpoly')]])]])]])],
                [('__type__', 'class'), ('name', 'H06'), ('keyimage', 'H07')]])

SK["symbolset"] = ('''SYMBOLSET
  SYMBOL
    NAME "H01"
    TYPE VECTOR
    POINTS 1 1 2 2 END
  END
  SYMBOL
    NAME 'H02'
    TYPE PIXMAP
    IMAGE "x.png"
  END
END''', [Hole("H01"), Hole("H02", quote="'")],
                   [('__type__', 'symbolset'),
                    ('symbols', [[('__type__', 'symbol'), ('name', 'H01'), ('type', 'VECTOR'), ('points', [[1, 1], [2, 2]])],
                                 [('__type__', 'symbol'), ('name', 'H02'), ('type', 'PIXMAP'), ('image', 'x.png')]])])

SK["values"] = ('''STYLE
  SYMBOL "H01"
  COLOR [A02]
  SIZE [A03]
  OUTLINECOLOR "#FF00aa"
  ANGLE AUTO
  OFFSET 1 -2.5
  GEOMTRANSFORM "bbox"
  INITIALGAP 0
  LINECAP round
  ANTIALIAS false
END''', [Hole("H01", "xstr"), Hole("A02", "name"), Hole("A03", "name")],
                [('__type__', 'style'), ('symbol', 'H01'), ('color', '[A02]'), ('size', '[A03]'), ('outlinecolor', '#ff00aa'), ('angle', 'AUTO'),
                 ('offset', [1, -2.5]), ('geomtransform', 'bbox'), ('initialgap', 0), ('linecap', 'round'), ('antialias', False)])

BODY = '''
{BUILD}
d = M.transform(PIPE.parse(TEXT, {HOLES}))
got = tsp.plain(d)
exp = subst(EXP, {MAP})
if got != exp:
    return False
# the returned objects are the auto-creating, case-insensitive Mapfile dicts
root = d[0] if isinstance(d, list) else d
return type(root).__name__ == "CaseInsensitiveOrderedDict" and root["__TYPE__"] == root["__type__"]
'''

DEFS = '''
TEXT = {text!r}
EXP = {exp!r}
MARKERS = {markers!r}


def subst(x, m):
    """the committed expected structure with each marker replaced by the hole's symbolic value (also inside "[A02]")"""
    if isinstance(x, str):
        for k in MARKERS:
            if x == k:
                return m[k]
            if x == "[" + k + "]":
                return "[" + m[k] + "]"
        return x
    if isinstance(x, tuple):
        return (subst(x[0], m), subst(x[1], m))
    if isinstance(x, list):
        return [subst(v, m) for v in x]
    return x
'''

INFO = {
    "explanation": "C02: template-symbolic pipeline on structural skeletons; the complete dict (key order, nesting, types) produced by the real parse loop, LALR "
                   "tables and MapfileTransformer is compared with an expected structure committed in the check (written from docs/transformer.rst), the "
                   "symbolic string contents / attribute names occurring exactly at their places.",
    "files": ["mappyfile/mapfile.lark", "mappyfile/parser.py", "mappyfile/transformer.py", "mappyfile/tokens.py", "mappyfile/ordereddict.py", "mappyfile/quoter.py"],
    "functions": ["mappyfile.parser.Parser.parse", "mappyfile.transformer.MapfileTransformer.composite", "mappyfile.transformer.MapfileTransformer.attr",
                  "mappyfile.transformer.MapfileTransformer.process_value_pairs", "mappyfile.transformer.MapfileTransformer.config",
                  "mappyfile.transformer.MapfileTransformer.projection", "mappyfile.transformer.MapfileTransformer.process_pair_lists",
                  "mappyfile.transformer.MapfileTransformer.hexcolor/int/float/true/false", "mappyfile.transformer.Canonize.symbolset"],
    "bounds": {"skeletons": 4, "nesting": "<= 5", "string_holes": "quick 2 / thorough 4 code points", "numbers/booleans/hex colours": "concrete in the skeletons"},
    "outside": ["hundreds of objects (no size-dependent code beyond list append; stated, not checked)", "numeric token values are concrete (int()/float() realise symbolic text)",
                "the symbolic block-nesting family over the LALR automaton is C19-VOCAB's"],
    "assumptions": ["hole substitution is justified by C05's scanner lemmas"],
    "stubs": ["hole lexer"],
}


def obligations(tier, seed):
    obs = []
    L = 2 if tier == "quick" else 4
    # loads() = INCLUDE pre-pass, then scanner/parser/transformer: the template-symbolic runs below feed hole values in *after* the
    # pre-pass, so its transparency on INCLUDE-free text (for arbitrary string contents) is an obligation of its own (C15's harness)
    from checks import C15
    for o in C15.obligations(tier, seed):
        if o.name.startswith("C15-IDENT/"):
            o.name = o.name.replace("C15-IDENT/", "C02-PRE/identity.")
            obs.append(o)
    for name, (text, holes, exp) in SK.items():
        params, pre, build = [], [], []
        for h in holes:
            if h.kind != "name":
                h.L = L
            if h.kind == "str":
                h.other_quote = True          # "quoted strings lose only their outer quotes": inner quotes of the other kind stay, wherever they are
            params += h.params()
            pre += h.pre()
            build.append(h.build())
        holes1 = "{" + ", ".join(f"{h.src_token()!r}: {h.src_value()}" for h in holes) + "}"
        mp = "{" + ", ".join(f"{h.marker!r}: {h.var}" for h in holes) + "}"
        body = BODY.format(BUILD="\n".join(build), HOLES=holes1, MAP=mp)
        src = PRELUDE + DEFS.format(text=text, exp=exp, markers=[h.marker for h in holes]) + harness("h", params, conj(pre), body)
        obs.append(Ob(name=f"C02-DICT/{name}", source=src, pct=900, timeout=1000,
                      meta={"desc": f"skeleton {name}: complete dict == committed expected structure, {len(holes)} symbolic holes",
                            "bounds": {"L": L}, "functions": ["MapfileTransformer.*", "Parser.parse"], "stubs": ["hole lexer"]}))
    return obs
