"""C14 — kept comments are verbatim, never invented or duplicated, and stay attached.

C14-PLACE  one-keyword-per-line skeleton with `#` and `/* */` comments at the documented placements (end of a simple keyword
           line; directly above an object / METADATA / VALIDATION opener; header of the file).  The comment *texts are
           symbolic*; the real scanner, lexer callbacks, Parser.parse, _assign_comments, CommentsTransformer, MapfileTransformer
           and PrettyPrinter run under CrossHair; the complete printed line list must equal the committed expectation: every
           comment exactly once, verbatim, a trailing comment on its keyword's line, block comments directly above their opener;
           and the comment-free content equals a plain load.
C14-LEX    (E-LEX, in C05) COMMENT / CCOMMENT lexemes are the exact source text.
"""
from engine.core import Ob, harness, chars, chr_expr, conj
from checks.tsp_common import PRELUDE

TEXT = '''# CA
# CB
MAP
  NAME "x" # CC
  # CD
  WEB
    IMAGEPATH "/tmp/" # CE
    # CF
    METADATA
      "k1" "v1" # CG
      "k2" "v2"
    END
  END
  /* CH */
  LAYER
    TYPE POINT /* two comments on one line */ # CI
    # CJ
    VALIDATION
      "q" "r"
    END
    # CK
    CLASS
      NAME "c" # CL
    END
  END
END'''

TEXT2 = '''# DA
MAP
  EXTENT 0 0 10 10 # DB
  SIZE 100 200 /* DC */
  # DD
  LAYER
    NAME "l1" # DE
    # DF
    CONNECTIONOPTIONS
      "FLATTEN" "YES"
    END
    STATUS ON # DH
  END
  # DI
  # DJ
  LAYER
    NAME "l2" # DK
    /* DL
       second line */
    CLASS
      # DM
      STYLE
        COLOR 1 2 3 # DN
        WIDTH 2.5 # DO
      END
      # DP
      STYLE
        SYMBOL "s" # DQ
      END
      # DR
      LABEL
        SIZE 8 # DS
      END
    END
    # DT
    CLASS
      NAME "c2" # DU
    END
  END
  # DV
  LEGEND
    STATUS ON # DW
  END
END'''

# second cover: two of everything that is stored as a list (LAYER, CLASS, STYLE), CONNECTIONOPTIONS, numeric / multi-value keywords,
# two comment lines above one opener, a C comment above an opener and at the end of a keyword line
EXPECT2 = ['{DA}', 'MAP', '    EXTENT 0 0 10 10 {DB}', '    SIZE 100 200 {DC}', '    {DD}', '    LAYER', '        NAME "l1" {DE}', '    {DF}',
           '        CONNECTIONOPTIONS', '            "flatten" "YES"', '        END', '        STATUS ON {DH}', '    END', '    {DI}\n    {DJ}', '    LAYER',
           '        NAME "l2" {DK}', '        {DL}', '        CLASS', '            {DM}', '            STYLE', '                COLOR 1 2 3 {DN}',
           '                WIDTH 2.5 {DO}', '            END', '            {DP}', '            STYLE', '                SYMBOL "s" {DQ}', '            END',
           '            {DR}', '            LABEL', '                SIZE 8 {DS}', '            END', '        END', '        {DT}', '        CLASS',
           '            NAME "c2" {DU}', '        END', '    END', '    {DV}', '    LEGEND', '        STATUS ON {DW}', '    END', 'END']

COMMENTS = ["CA", "CB", "CC", "CD", "CE", "CF", "CG", "CH", "CI", "CJ", "CK", "CL"]

# committed expectation (docs/comments.rst placements); {X} = the comment as written in the source
EXPECT = ['{CA}\n{CB}', 'MAP', '    NAME "x" {CC}', '    {CD}', '    WEB', '        IMAGEPATH "/tmp/" {CE}', '    {CF}', '        METADATA',
          '            "k1" "v1" {CG}', '            "k2" "v2"', '        END', '    END', '    {CH}', '    LAYER', '        TYPE POINT {CI}', '    {CJ}',
          '        VALIDATION', '            "q" "r"', '        END', '        {CK}', '        CLASS', '            NAME "c" {CL}', '        END', '    END', 'END']

BODY = '''
{BUILD}
sub = {SUB}
if hist:
    # the same Parser object has just read another document whose last comments belong to no node
    MC.transform(PIPEC.parse(OTHER))
d = MC.transform(PIPEC.parse(TEXT, None, None, sub))
lines = PP._format(d)
exp = {EXP}
if lines != exp:
    return False
# a printer with newlinechar CRLF: separate comments are joined with CRLF, the text of each comment (a line break inside a C comment included) is untouched
if PPW._format(d) != {EXPW}:
    return False
# comment-free content is that of a plain load, and printing it gives the same lines minus the comments
if tsp.plain(d) != PLAIN:
    return False
return True
'''

INFO = {
    "explanation": "C14: comment texts symbolic; real lexer callbacks + Parser.parse/_assign_comments + CommentsTransformer + MapfileTransformer + PrettyPrinter under "
                   "CrossHair; complete line list vs committed expectation (each comment verbatim, once, at its documented placement).",
    "files": ["mappyfile/parser.py", "mappyfile/transformer.py", "mappyfile/pprint.py"],
    "functions": ["mappyfile.parser.Parser._assign_comments", "mappyfile.parser.Parser.parse", "mappyfile.transformer.CommentsTransformer.*",
                  "mappyfile.transformer.MapfileTransformer.composite", "mappyfile.pprint.PrettyPrinter.process_attribute_comment",
                  "mappyfile.pprint.PrettyPrinter.process_composite_comment", "mappyfile.pprint.PrettyPrinter._add_type_comment", "mappyfile.pprint.PrettyPrinter.process_key_dict"],
    "bounds": {"comments": 12, "comment_text": "'#' or '/*..*/' + 2 (quick) / 4 (thorough) symbolic code points 33..0x167F (no white space)", "layout": "one keyword per line"},
    "outside": ["comments elsewhere (after END, inside values, on PROCESSING/CONFIG lines, above VALUES/PROJECTION/POINTS/PATTERN) - observed to migrate or vanish; the property does not claim them",
                "comment line numbers are those of the concrete skeleton (the scanner assigns them); symbolic line numbers are not used"],
    "assumptions": ["COMMENT/CCOMMENT lexemes are the exact source text (scanner lemma, C05)"],
    "stubs": ["comment texts substituted in Parser.comments_dict before _assign_comments runs"],
}


def obligations(tier, seed):
    L = 2 if tier == "quick" else 4
    return [_cover("cover", TEXT, EXPECT, L), _cover("cover2", TEXT2, EXPECT2, L)]


def _cover(name, text, expect, L):
    import re
    comments = sorted(set(re.findall(r"\{([A-Z]{2})\}", " ".join(expect))))
    params, pre, build = [], [], []
    sub = []
    for c in comments:
        cs = chars(c.lower() + "_", L)
        params += cs
        pre += [f"({n} >= 33) & ({n} < 0x1680) & ({n} != 0x85) & ({n} != 0xa0)" for n, _ in cs]   # no white space: the parser strips comment text
        body = chr_expr(c.lower() + "_", L)
        if f"/* {c}\n" in text:
            # a C comment over two lines: written as it stands whatever the printer's newlinechar
            full = re.search(r"/\* " + c + r"\n[^*]*\*/", text).group(0)
            pre.append(" & ".join(f"({n} != 42)" for n, _ in cs))
            build.append(f"v_{c} = '/* ' + {body} + {full[5:]!r}")
            sub.append(f"{full!r}: v_{c}")
        elif f"/* {c} */" in text:
            # a C comment: its text must not contain the terminator
            pre.append(" & ".join(f"({n} != 42)" for n, _ in cs))
            build.append(f"v_{c} = '/* ' + {body} + ' */'")
            sub.append(f"'/* {c} */': v_{c}")
        else:
            assert f"# {c}" in text, c
            build.append(f"v_{c} = '# ' + {body}")
            sub.append(f"'# {c}': v_{c}")
    exp = "[" + ", ".join(_expr(ln) for ln in expect) + "]"
    expw = "[" + ", ".join(_expr(ln.replace("\n", "\r\n")) for ln in expect) + "]"
    other = "# o1\nMAP\n  NAME 'o' # o2\n  LAYER\n    TYPE POINT\n    # o3 unattached\n  END\n  # o4 unattached\nEND\n# o5 after the end\n" + "\n" * 20 + "# o6 far below\n"
    defs = f"\nTEXT = {text!r}\nOTHER = {other!r}\nPLAIN = tsp.plain(mappyfile.loads(TEXT))\nPPW = tsp.printer(tsp.ALL_TYPES, indent=4, quote='\"', newlinechar='\\r\\n')\n"
    params = params + [("hist", "bool")]
    src = PRELUDE + defs + harness("h", params, conj(pre), BODY.format(BUILD="\n".join(build), SUB="{" + ", ".join(sub) + "}", EXP=exp, EXPW=expw))
    return Ob(name=f"C14-PLACE/{name}", source=src, pct=900, timeout=1000,
              meta={"desc": f"{len(comments)} comments with symbolic text ({L} code points each) at the documented placements: full line list vs committed expectation; content == plain load",
                    "functions": ["Parser._assign_comments", "CommentsTransformer", "PrettyPrinter._format"], "stubs": ["comment substitution"]})


def _expr(line):
    import re
    parts, pos = [], 0
    for m in re.finditer(r"\{([A-Z]{2})\}", line):
        if m.start() > pos:
            parts.append(repr(line[pos:m.start()]))
        parts.append("v_" + m.group(1))
        pos = m.end()
    if pos < len(line):
        parts.append(repr(line[pos:]))
    return " + ".join(parts)
