"""C11 — any input is either parsed or rejected with a parse error (the "promptly / time proportional to length" clause is
outside this technique, see INFO).

C11-LOOP   (E-LALR) for every sequence of 5 terminals, whenever Parser.parse inspects a token other than the first one the value
           stack is non-empty (bit-blasted BMC of the real parse table); the first token's inspection is guarded in the source
           (AST); a model / missing guard is replayed through loads (root-level GRID).
C11-ROOT   (E-LALR) every pair of block types is accepted as the roots of a partial Mapfile (TYPE END TYPE END), the block types
           symbolic over the grammar's composite_type terminals.
C11-TIME   (E-LEX) no terminal of the grammar can be driven into exponentially many backtracking paths (bounded model of CPython's
           matcher over all texts of length 12 / 14); the witness of a violation is stretched and timed on the real `re`.
C11-INC    (CrossHair) load_includes on INCLUDE lines with symbolic tails (blanks, quotes, '#', letters): only the documented
           ValueError (depth) / IOError (missing file) can escape - never IndexError.
C11-WRAP   (TSP) grammatical-but-odd inputs that trip assertions / indexing in the tree callbacks (block keyword used as a
           plain keyword, empty POINTS / PATTERN / PROJECTION / SYMBOLSET, ...) with symbolic string contents: the public pipeline
           returns a dict / list or raises a lark.exceptions.LarkError, nothing else.
"""
from engine.core import Ob, HEADER, harness, chars, chr_expr, conj
from checks.tsp_common import PRELUDE as TSP_PRELUDE, Hole

INC_PRE = HEADER + '''
from mappyfile.parser import Parser


class StubParser(Parser):
    def __init__(self):
        self.expand_includes = True
        self.include_comments = False
        self._comments = []
        self.lalr = None
        self.kwargs = {}

    def open_file(self, fn):
        if fn.endswith("ok.map"):
            return "NAME 'x'"
        raise IOError("missing " + fn)


ALPHA = " \\t\\"'#ao.k/"
'''

INC = '''
def ch(c):
    # the if-chain realises the selector: each tail is a concrete string on its path
    return " " if c == 0 else ("\\t" if c == 1 else ('"' if c == 2 else ("'" if c == 3 else ("#" if c == 4 else ("a" if c == 5 else ("o" if c == 6 else ("." if c == 7 else ("k" if c == 8 else "/"))))))))
tail = {TAIL}
kw = "INCLUDE" if up else "include"
lead = "  " if ind else ""
text = "MAP\\n" + lead + kw + tail + "\\nEND"
try:
    out = StubParser().load_includes(text, fn="/r/root.map")
except (ValueError, IOError):
    return True                     # documented: depth exceeded / missing file
return isinstance(out, str)
'''

WRAP_TEXTS = {
    "block-as-keyword": 'LAYER\n  CLASS "H01"\nEND',
    "layer-string": 'MAP\n  LAYER "H01"\nEND',
    "empty-pattern": 'STYLE\n  PATTERN END\n  SYMBOL "H01"\nEND',
    "empty-points": 'FEATURE\n  POINTS END\n  TEXT "H01"\nEND',
    "empty-projection": 'LAYER\n  PROJECTION END\n  NAME "H01"\nEND',
    "empty-symbolset": 'SYMBOLSET\nEND',
    "symbol-value": 'STYLE\n  SYMBOL "H01"\n  STYLE "H01"\nEND',
    "config-odd": 'MAP\n  CONFIG "a" "H01"\n  CONFIG b c\nEND',
    "metadata-bare": 'WEB\n  METADATA\n    a "H01"\n    "b" c\n  END\nEND',
    "values-root": 'SCALETOKEN\n  VALUES\n    "0" "H01"\n  END\nEND',
    "list-mixed": 'CLASS\n  EXPRESSION {a b,"H01",3}\nEND',
    "not-expr": 'CLASS\n  EXPRESSION NOT [a]\n  TEXT ("H01")\nEND',
    "deep": 'MAP\nLAYER\nCLASS\nSTYLE\nEND\nLABEL\nSTYLE\nEND\nEND\nLEADER\nSTYLE\nEND\nEND\nEND\nNAME "H01"\nEND\nEND',
}

WRAP = '''
from lark.exceptions import LarkError
s = {S}
try:
    d = M.transform(PIPE.parse(TEXT, {{'"H01"': '"' + s + '"'}}))
except LarkError:
    return True
return isinstance(d, (dict, list))
'''

INFO = {
    "explanation": "C11: the interactive loop's stack access and root acceptance as bit-blasted BMC queries on the real parse table; the INCLUDE "
                   "pre-pass on symbolic directive tails under CrossHair; assertion / indexing sites of the tree callbacks reached through the real "
                   "pipeline with symbolic contents: only LarkError escapes.",
    "files": ["mappyfile/parser.py", "mappyfile/transformer.py", "mappyfile/mapfile.lark"],
    "functions": ["mappyfile.parser.Parser.parse (loop)", "lark LALR table", "mappyfile.parser.Parser.load_includes", "mappyfile.parser.Parser._get_include_filename",
                  "mappyfile.transformer.MapfileTransformer.attr/check_composite_tokens/process_pair_lists/projection/config/composite", "lark.visitors.Transformer._call_userfunc (wraps into VisitError; trusted)"],
    "bounds": {"loop": "all sequences of 4 (quick) / 5 (thorough) terminals over the 88 terminals, 32 / 40 micro-steps", "roots": "19 x 19 block types", "include_tail": "0..3 (quick) / 0..4 (thorough) characters over { space tab \" ' # a o . k / }",
               "wrap": "13 odd-but-grammatical skeletons, 2 symbolic code points"},
    "outside": ["TIME roughly proportional to input length: decided only at the scanner level as absence of exponential regex backtracking (C11-TIME); the LALR driver's and the tree visitors' running time are not solver observables here",
                "arbitrary long token soups and nesting beyond the skeletons; scanner errors (UnexpectedCharacters) are raised by lark itself (trusted)",
                "IOError / ValueError from INCLUDE handling are the documented behaviour of C15, not violations of C11"],
    "assumptions": ["lark wraps every Exception raised in a transformer callback into VisitError (a LarkError)"],
    "stubs": ["Parser.open_file in C11-INC", "hole lexer in C11-WRAP"],
}


def obligations(tier, seed):
    obs = []
    obs.append(Ob(name="C11-LOOP/stack", kind="z3", z3_call=("engine.lalr", "loop_query", {"n": 4 if tier == "quick" else 5, "steps": 32 if tier == "quick" else 40}), timeout=1800,
                  meta={"desc": "value stack non-empty whenever a token after the first is inspected; first-token guard present", "functions": ["Parser.parse", "LALR table"]}))
    obs.append(Ob(name="C11-TIME/backtracking", kind="z3", z3_call=("engine.lexmodel", "lx_backtracking", {"L": 12 if tier == "quick" else 14}), timeout=1500,
                  meta={"desc": "scanner level of the 'promptly' clause: for every terminal, over all texts of length L the number of simultaneous CPython backtracking paths stays <= L*L "
                                "(an exponential family - nested quantifiers splitting one run in many ways - exceeds it); a witness is stretched and timed on the real `re`",
                        "functions": ["all terminals of mapfile.lark (to_regexp)"]}))
    obs.append(Ob(name="C11-ROOT/blocks", kind="z3", z3_call=("engine.lalr", "root_query", {}), timeout=900,
                  meta={"desc": "every pair of block types accepted as roots", "functions": ["LALR table"]}))
    for L in (range(0, 4) if tier == "quick" else range(0, 5)):
        cs = chars("t", L)
        tail = " + ".join(f"ch(t{i})" for i in range(L)) if L else "''"
        src = INC_PRE + harness("h", cs + [("up", "bool"), ("ind", "bool")], conj([f"({n} >= 0) & ({n} < 10)" for n, _ in cs]), INC.format(TAIL=tail))
        obs.append(Ob(name=f"C11-INC/tail{L}", source=src, pct=900, timeout=1000,
                      meta={"desc": f"INCLUDE + every tail of length {L} over 10 characters: only ValueError / IOError escape load_includes", "functions": ["Parser.load_includes", "Parser._get_include_filename"], "stubs": ["open_file"]}))
    cs = chars("c", 2)
    for name, text in WRAP_TEXTS.items():
        src = TSP_PRELUDE + f"\nTEXT = {text!r}\n" + harness("h", cs, conj([f"okstart({cs[0][0]})", f"okc({cs[1][0]})"]), WRAP.format(S=chr_expr("c", 2)))
        obs.append(Ob(name=f"C11-WRAP/{name}", source=src, pct=600, timeout=700,
                      meta={"desc": f"odd-but-grammatical input '{name}': dict/list or LarkError, nothing else", "functions": ["MapfileTransformer.*", "Parser.parse"], "stubs": ["hole lexer"]}))
    return obs
