"""C17 — CaseInsensitiveOrderedDict behaves as a case-insensitive, insertion-ordered dict.

One inductive step per operation from an arbitrary reachable state over three keys (DESIGN §4 C17):
pre-state = symbolic presence bits x symbolic insertion order x symbolic values x factory on/off;
operation key = symbolic index over 3 present-able keys + 1 never-present key, symbolic spelling.
The post-state (items(), order, representation invariant) and the result are compared with a
reference model: an ``OrderedDict`` keyed by lower-cased keys.
"""
from engine.core import Ob, HEADER, harness

PRELUDE = HEADER + '''
import copy, pickle
from collections import OrderedDict
from mappyfile.ordereddict import CaseInsensitiveOrderedDict as CI, DefaultOrderedDict
from mappyfile.tokens import OBJECT_LIST_KEYS

BASE = ["name", "layers", "x1", "zz"]          # "zz" is never in the pre-state; "layers" is an object-list key
SPELL = [[k, k.upper(), k.title(), k[0] + k[1:].upper()] for k in BASE]
PERMS = [(0, 1, 2), (0, 2, 1), (1, 0, 2), (1, 2, 0), (2, 0, 1), (2, 1, 0)]
MISSING = object()


def build(perm, p0, p1, p2, v0, v1, v2, fac):
    """An arbitrary reachable state: keys inserted in order PERMS[perm], each present iff its bit."""
    pres = (p0, p1, p2)
    vals = (v0, v1, v2)
    d = CI(CI) if fac else CI()
    ref = OrderedDict()
    for i in PERMS[perm]:
        if pres[i]:
            d[BASE[i]] = vals[i]
            ref[BASE[i]] = vals[i]
    return d, ref


def same(d, ref):
    """post-state == model, order included, and the representation invariant (keys lower-case)."""
    items = list(d.items())
    if items != list(ref.items()):
        return False
    if list(d.keys()) != list(ref.keys()) or len(d) != len(ref):
        return False
    for k in d.keys():
        if k != k.lower():
            return False
    return True


def ref_missing(ref, lk, fac):
    """model of reading a missing key: KeyError without factory, else stored [] / new dict."""
    if not fac:
        return MISSING
    if lk in ("layers", "classes", "styles", "symbols", "labels", "outputformats", "features",
              "scaletokens", "composites", "joins"):
        ref[lk] = []
    else:
        ref[lk] = CI(CI)
    return ref[lk]

PRE = "(perm >= 0) & (perm < 6) & (k >= 0) & (k < 4) & (s >= 0) & (s < 4)"
'''

STATE = [("perm", "int"), ("p0", "bool"), ("p1", "bool"), ("p2", "bool"), ("v0", "int"), ("v1", "int"),
         ("v2", "int"), ("fac", "bool"), ("k", "int"), ("s", "int")]
PRE = "(perm >= 0) & (perm < 6) & (k >= 0) & (k < 4) & (s >= 0) & (s < 4)"

OPS = {
    "getitem": ([], "", '''
d, ref = build(perm, p0, p1, p2, v0, v1, v2, fac)
K = SPELL[k][s]; lk = BASE[k]
if lk in ref:
    exp = ref[lk]
else:
    exp = ref_missing(ref, lk, fac)
try:
    got = d[K]
except KeyError:
    got = MISSING
if exp is MISSING or got is MISSING:
    return (exp is got) and same(d, ref)
if isinstance(exp, list):
    return isinstance(got, list) and got == [] and (d[lk] is got) and same(d, ref)
if isinstance(exp, CI):
    return isinstance(got, CI) and len(got) == 0 and (d[lk] is got) and same(d, ref)
return got == exp and same(d, ref)
'''),
    "setitem": ([("w", "int")], "", '''
d, ref = build(perm, p0, p1, p2, v0, v1, v2, fac)
K = SPELL[k][s]; lk = BASE[k]
d[K] = w
ref[lk] = w
return same(d, ref) and d[lk] == w and d[K.swapcase()] == w
'''),
    "delitem": ([], "", '''
d, ref = build(perm, p0, p1, p2, v0, v1, v2, fac)
K = SPELL[k][s]; lk = BASE[k]
try:
    del d[K]
    got = True
except KeyError:
    got = False
exp = lk in ref
if exp:
    del ref[lk]
return got == exp and same(d, ref)
'''),
    "contains_get": ([("w", "int")], "", '''
d, ref = build(perm, p0, p1, p2, v0, v1, v2, fac)
K = SPELL[k][s]; lk = BASE[k]
ok = ((K in d) == (lk in ref)) and (d.has_key(K) == (lk in ref))
ok = ok and d.get(K, w) == ref.get(lk, w) and (d.get(K) == ref.get(lk))
return ok and same(d, ref)          # get / in never auto-create
'''),
    "pop": ([("w", "int"), ("with_default", "bool")], "", '''
d, ref = build(perm, p0, p1, p2, v0, v1, v2, fac)
K = SPELL[k][s]; lk = BASE[k]
try:
    got = d.pop(K, w) if with_default else d.pop(K)
except KeyError:
    got = MISSING
if lk in ref:
    exp = ref.pop(lk)
else:
    exp = w if with_default else MISSING
if exp is MISSING or got is MISSING:
    return (exp is got) and same(d, ref)
return got == exp and same(d, ref)
'''),
    "setdefault": ([("w", "int")], "", '''
d, ref = build(perm, p0, p1, p2, v0, v1, v2, fac)
K = SPELL[k][s]; lk = BASE[k]
got = d.setdefault(K, w)
exp = ref.setdefault(lk, w)
return got == exp and same(d, ref)
'''),
    "update": ([("k2", "int"), ("s2", "int"), ("w", "int"), ("w2", "int")],
               "(k2 >= 0) & (k2 < 4) & (s2 >= 0) & (s2 < 4) & (k == KFIX) & ((s == 0) | (s == 3)) & ((s2 == 0) | (s2 == 3))", '''
form = FORM
d, ref = build(perm, p0, p1, p2, v0, v1, v2, fac)
K = SPELL[k][s]; lk = BASE[k]; K2 = SPELL[k2][s2]; lk2 = BASE[k2]
if form == 0:
    d.update({K: w, K2: w2}) if K != K2 else d.update({K: w2})
elif form == 1:
    d.update([(K, w), (K2, w2)])
elif form == 2:
    d.update(**{K: w, K2: w2}) if K != K2 else d.update(**{K: w2})
elif form == 3:
    d.update({K: w}, **{K2: w2})            # positional mapping and keyword arguments together
else:
    d.update([(K, w)], **{K2: w2})
ref[lk] = w
ref[lk2] = w2
return same(d, ref)
'''),
    "construct": ([("k2", "int"), ("s2", "int"), ("w", "int"), ("w2", "int")],
                  "(k2 >= 0) & (k2 < 4) & (s2 >= 0) & (s2 < 4)", '''
K = SPELL[k][s]; lk = BASE[k]; K2 = SPELL[k2][s2]; lk2 = BASE[k2]
pairs = [(K, w), ("x1", v0), (K2, w2)]
d = CI(CI, pairs) if fac else CI(None, pairs)
ref = OrderedDict()
for kk, vv in pairs:
    ref[kk.lower()] = vv
src2 = OrderedDict(pairs)            # a mapping source: its own iteration order / last-wins applies first
d2 = CI(CI, src2) if fac else CI(None, src2)
ref2 = OrderedDict()
for kk, vv in src2.items():
    ref2[kk.lower()] = vv
return same(d, ref) and same(d2, ref2) and (d.default_factory is (CI if fac else None))
'''),
    "copy": ([], "", '''
d, ref = build(perm, p0, p1, p2, v0, v1, v2, fac)
inner = [v0, [v1]]
d["x1"] = inner
ref["x1"] = inner
for c in (d.copy(), copy.copy(d)):
    if not (type(c) is CI and same(c, ref) and c == d and c.default_factory is d.default_factory):
        return False
    if c["X1"] is not inner:            # shallow: shares values
        return False
    K = SPELL[k][s]; lk = BASE[k]
    c[K] = 5                            # same behaviour: case-insensitive set on the copy ...
    if c[lk] != 5:
        return False
    if (lk in ref) != (lk in d):        # ... which never leaks into the original's key set
        return False
return same(d, ref)
'''),
    "deepcopy": ([], "", '''
d, ref = build(perm, p0, p1, p2, v0, v1, v2, fac)
inner = [v0, [v1]]
sub = CI(CI)
sub["Name"] = v2
d["x1"] = inner
d["layers"] = [sub]
ref["x1"] = inner
ref["layers"] = [sub]
c = copy.deepcopy(d)
if not (type(c) is CI and c == d and same(c, ref) and c.default_factory is d.default_factory):
    return False
if c["x1"] is inner or c["x1"][1] is inner[1] or c["layers"][0] is sub or type(c["layers"][0]) is not CI:
    return False
c["x1"][1].append(1)
c["layers"][0]["NAME"] = 77
c["layers"].append(3)
K = SPELL[k][s]
c[K] = 5
return inner == [v0, [v1]] and sub["name"] == v2 and len(d["layers"]) == 1 and same(d, ref)
'''),
    "pickle": ([], "", '''
# values are concrete here: z3-backed symbolic ints cannot cross the C pickler
d, ref = build(perm, p0, p1, p2, 10, [20, [21]], "Thirty", fac)
c = pickle.loads(pickle.dumps(d))
if not (type(c) is CI and c == d and same(c, ref) and c.default_factory is d.default_factory):
    return False
K = SPELL[k][s]; lk = BASE[k]
c[K] = 5
return c[lk] == 5 and same(d, ref)
'''),
    "default_plain": ([], "", '''
# DefaultOrderedDict (returned by create()) : lower-cases on read, auto-creates like its subclass
d = DefaultOrderedDict(CI) if fac else DefaultOrderedDict()
ref = OrderedDict()
pres = (p0, p1, p2); vals = (v0, v1, v2)
for i in PERMS[perm]:
    if pres[i]:
        d[BASE[i]] = vals[i]; ref[BASE[i]] = vals[i]
K = SPELL[k][s]; lk = BASE[k]
if lk in ref:
    exp = ref[lk]
else:
    exp = ref_missing(ref, lk, fac)
try:
    got = d[K]
except KeyError:
    got = MISSING
if exp is MISSING or got is MISSING:
    return (exp is got) and list(d.items()) == list(ref.items())
if isinstance(exp, (list, CI)):
    return type(got) is type(exp) and len(got) == 0 and list(d.keys()) == list(ref.keys())
return got == exp and list(d.items()) == list(ref.items())
'''),
}

INFO = {
    "explanation": "C17: one inductive step per dict operation from every reachable 3-key state (presence bits x insertion order x "
                   "symbolic values x factory) against an OrderedDict-on-lower-cased-keys reference model; because every reachable "
                   "state over the key alphabet is a pre-state and the representation invariant is part of the post-state, histories "
                   "of any length follow by induction.",
    "files": ["mappyfile/ordereddict.py", "mappyfile/tokens.py"],
    "functions": ["mappyfile.ordereddict.CaseInsensitiveOrderedDict.*", "mappyfile.ordereddict.DefaultOrderedDict.*"],
    "bounds": {"keys": 4, "spellings_per_key": 4, "insertion_orders": 6, "values": "unbounded int (pickle: 0..1)",
               "per_condition_timeout_s": 600},
    "outside": ["non-string keys", "more than 4 distinct keys (keys do not interact except through order)"],
    "assumptions": ["dict hashing realises keys, so the key/spelling/order space is enumerated by the solver's case splits (exhaustive, finite)"],
    "stubs": [],
}


def obligations(tier, seed):
    obs = []
    variants = []
    for op, (extra, pre2, body) in OPS.items():
        for fac in (0, 1):
            if op == "update":
                for form in range(5):
                    for kfix in (range(4) if (form < 3 or tier != "quick") else (1, 3)):
                        variants.append((f"{op}{form}.k{kfix}.fac{fac}", extra, pre2, f"FORM = {form}\nKFIX = {kfix}\n", body, fac))
            else:
                variants.append((f"{op}.fac{fac}", extra, pre2, "", body, fac))
    for op, extra, pre2, defs, body, fac in variants:
        pre = PRE + (" & " + pre2 if pre2 else "") + (" & fac" if fac else " & (not fac)")
        src = PRELUDE + defs + harness("h", STATE + extra, pre, body)
        obs.append(Ob(name=f"C17-STEP/{op}", source=src, pct=900 if tier == "thorough" else 420, timeout=1000,
                      meta={"desc": f"one {op} step from any 3-key state vs reference model",
                            "bounds": {"keys": 4, "spellings": 4, "orders": 6},
                            "functions": ["mappyfile.ordereddict.CaseInsensitiveOrderedDict"]}))
    return obs
