"""C07 — validate's verdict equals the schema's verdict; messages name the offending keyword / object.

The real ``Validator.validate`` (real $ref registry, real convert_lowercase, real jsonschema Draft4Validator,
real create_message / findkey) runs under CrossHair on documents with symbolic leaves drawn from
fault-capable domains.  The expected verdict comes from ``engine.refmodels.ref_ok`` — a Draft-04 evaluator
written from the specification — applied to the keyword's own published sub-schema.
"""
from engine.core import Ob, HEADER, harness
from engine import slots as S

PRELUDE = HEADER + '''
import sys, copy
from collections import OrderedDict
import mappyfile
import mappyfile.validator as MV
from mappyfile.validator import Validator
from mappyfile.ordereddict import CaseInsensitiveOrderedDict as CI
from engine import slots as S
from engine.refmodels import ref_ok


class _J:
    """stub for json inside mappyfile.validator: dumps/loads are the identity (the C encoder would realise every symbolic leaf)"""
    dumps = staticmethod(lambda x, **k: x)
    loads = staticmethod(lambda x, **k: x)
    load = staticmethod(MV.json.load)


MV.json = _J
V = Validator()
TYPE = %(type)r
PROPS = S.expanded(TYPE)["properties"]
REQUIRED = S.expanded(TYPE).get("required", [])
KEYS = %(keys)r
list(V.get_schema_validator(TYPE).iter_errors({"__type__": TYPE}))      # resolve $refs once, outside tracing


def names(msgs):
    return sorted(set(m["message"] for m in msgs))


def expected(d):
    """messages the statement requires for a flat object dict: one name per violating keyword, the object's
    name for unknown or missing keywords"""
    exp = set()
    for k, v in d.items():
        lk = k.lower()
        if lk.startswith("__") and lk.endswith("__"):
            continue
        if lk not in PROPS:
            exp.add("ERROR: Invalid value in " + TYPE.upper())
        elif not ref_ok(PROPS[lk], low(v)):
            exp.add("ERROR: Invalid value in " + lk.upper())
    for r in REQUIRED:
        if r not in [k.lower() for k in d.keys()]:
            exp.add("ERROR: Invalid value in " + TYPE.upper())
    return sorted(exp)


def low(v):
    if isinstance(v, str):
        return v.lower()
    if isinstance(v, list):
        return [low(x) for x in v]
    return v


def base():
    d = CI(CI)
    d["__type__"] = TYPE
    for r in REQUIRED:
        d[r] = %(reqvals)r[r]
    return d
'''

NUM = '''
key = KEYS[sel]
d = base()
if HALF:
    # floats (and ints of keywords with oneOf/anyOf alternatives, whose error messages repr() the value and so realise it):
    # boundary values of every bound in the type's numeric keywords (b-0.5, b, b+0.5) selected by the solver
    n = FLOATS[n % len(FLOATS)]
d[key] = n
d["__position__"] = {"line": 3, "column": 4, key: {"line": 5, "column": 6}}
msgs = V.validate(d, schema_name=TYPE)
exp = expected(d)
if names(msgs) != exp:
    return False
for m in msgs:                       # C08: location of the offending keyword
    if m["line"] != 5 or m["column"] != 6:
        return False
return (len(msgs) == 0) == ref_ok(PROPS[key], n)
'''

NUMLIST = '''
key = KEYS[sel]
d = base()
k = int(k)                                          # the length is realised: one path per length
a = CANDS[a]                                        # element: boundary values of the item bounds (list reprs in messages realise it anyway)
vals = ([a] + [GOOD] * 6)[:k] if first else ([GOOD] * 6 + [a])[7 - k:]
d[key] = vals
d["__position__"] = {"line": 3, "column": 4, key: {"line": 5, "column": 6, "values": []}}
msgs = V.validate(d, schema_name=TYPE)
if names(msgs) != expected(d):
    return False
for m in msgs:
    if m["line"] != 5 or m["column"] != 6:
        return False
return (len(msgs) == 0) == ref_ok(PROPS[key], vals)
'''

PAIRS = '''
# list-of-pairs keywords (PATTERN, POINTS): a fault inside one pair sits two list levels below the keyword
key = KEYS[sel]
cands = [1, 2.5, "x", None, True, [1]]
bad = cands[w]
pairs = [[1, 2], [3, 4], [5, 6]]
k = int(k)
if arity:
    pairs[k] = [1, 2, 3] if w % 2 else [1]
else:
    pairs[k] = [bad, 2] if first else [1, bad]
d = base()
d[key] = pairs
d["__position__"] = {"line": 3, "column": 4, key: {"line": 5, "column": 6}}
msgs = V.validate(d, schema_name=TYPE)
if names(msgs) != expected(d):
    return False
for m in msgs:
    if m["line"] != 5 or m["column"] != 6:
        return False
return (len(msgs) == 0) == ref_ok(PROPS[key], pairs)
'''

ENUM = '''
key, words = KEYS[sel]
cands = []
for w0 in words[:3]:
    cands += [w0, w0.upper(), w0.title(), w0 + "x"]
cands += ["zz", 7, True, ["a"]]
val = cands[w % len(cands)]
d = base()
d[key] = val
msgs = V.validate(d, schema_name=TYPE)
return names(msgs) == expected(d) and (len(msgs) == 0) == ref_ok(PROPS[key], low(val))
'''

WRONG = '''
key = KEYS[sel]
vals = [7, -1.5, "zz", True, [1, 2], ["a", "b"], [1, 2, 3], "[x]", "(x)", 0, [1, 2, 3, 4]]
val = vals[w]
d = base()
d[key] = val
msgs = V.validate(d, schema_name=TYPE)
return names(msgs) == expected(d) and (len(msgs) == 0) == ref_ok(PROPS[key], low(val))
'''

OBJECT = '''
# unknown keyword / hidden keys / mixed-case keys and values / missing required keyword; plain dicts too
key = KEYS[sel]
d = OrderedDict() if plain else CI(CI)
d["__type__"] = TYPE.upper() if up else TYPE
for r in REQUIRED:
    if not (drop and r == REQUIRED[0]):
        d[r.upper() if up else r] = %(reqvals)r[r]
if unk:
    d["zzunknown"] = 1
if hid:
    d["__hidden__"] = {"anything": [1]}
    d["__comments__"] = {}
d[key.upper() if up else key] = n
msgs = V.validate(d, schema_name=TYPE)
exp = expected(d)
return names(msgs) == exp
'''

LISTROOT = '''
# a list of root dictionaries is validated one by one (small schema keeps the traced paths short) ...
d1 = CI(CI); d1["__type__"] = "scalebar"; d1["size"] = [10, 10]; d1["intervals"] = a
d2 = CI(CI); d2["__type__"] = "scalebar"; d2["width"] = 3; d2["zz"] = 1
both = V.validate([d1, d2], schema_name="scalebar")
one = V.validate(d1, schema_name="scalebar") + V.validate(d2, schema_name="scalebar")
if [m["message"] for m in both] != [m["message"] for m in one] or V.validate([], schema_name="scalebar") != []:
    return False
# ... and the module-level helper is Validator().validate(d, version=version) on the map schema
rec = []
class RecV:
    def validate(self, value, add_comments=False, schema_name="map", version=None):
        rec.append((value, add_comments, schema_name, version))
        return ["MSGS"]
import mappyfile.utils as U
real = U.Validator
U.Validator = RecV
try:
    r = mappyfile.validate(d1, ver) if withver else mappyfile.validate(d1)
finally:
    U.Validator = real
return r == ["MSGS"] and rec == [(d1, False, "map", ver if withver else None)]
'''

DEEP = '''
# faults at symbolic places in a nested document: list index of the faulty style, keyword-level and object-level errors,
# with the positions C08 requires (offending keyword's, or the enclosing block opener's for object-level errors)
c = CI(CI); c["__type__"] = "class"; c["__position__"] = {"line": 1, "column": 1, "name": {"line": 2, "column": 3}}
c["name"] = "n"
styles = []
for i in range(3):
    st = CI(CI); st["__type__"] = "style"; st["width"] = 1
    st["__position__"] = {"line": 10 + i, "column": 7, "width": {"line": 20 + i, "column": 9}, "zzunknown": {"line": 99, "column": 99}}
    styles.append(st)
c["styles"] = styles
lb = CI(CI); lb["__type__"] = "label"; lb["size"] = 5; lb["__position__"] = {"line": 30, "column": 5, "size": {"line": 31, "column": 6}}
c["labels"] = [lb]
exp = []
i1 = int(i1); i2 = int(i2)
if f1:
    styles[i1]["width"] = w                                   # number below its minimum (0) when w < 0
    if w < 0:
        exp.append(("ERROR: Invalid value in WIDTH", 20 + i1, 9))
if f2:
    styles[i2]["zzunknown"] = 1                               # unknown keyword: object-level error at the STYLE opener
    exp.append(("ERROR: Invalid value in STYLE", 10 + i2, 7))
if f3:
    c["zzother"] = 2                                          # unknown keyword in the root object
    exp.append(("ERROR: Invalid value in CLASS", 1, 1))
if f4:
    lb["maxlength"] = w                                       # exclusiveMinimum 0 is not a Draft-04 constraint on its own; type integer holds
msgs = V.validate(c, schema_name="class")
got = sorted(set((x["message"], x["line"], x["column"]) for x in msgs))
return got == sorted(set(exp))
'''

COUNT = '''
# the same fault in several objects gives one message per faulty keyword / object (dictionaries without position data,
# as returned by a plain loads or create): nothing is merged or dropped
c = CI(CI); c["__type__"] = "class"; c["name"] = "n"
styles = []
for i in range(3):
    st = CI(CI); st["__type__"] = "style"; st["width"] = 1
    styles.append(st)
c["styles"] = styles
n_exp = 0
if f0:
    styles[0]["width"] = w; n_exp += 1 if w < 0 else 0
if f1:
    styles[1]["width"] = w; n_exp += 1 if w < 0 else 0
if f2:
    styles[2]["width"] = w; n_exp += 1 if w < 0 else 0
if u0:
    styles[0]["zzunknown"] = 1; n_exp += 1
if u2:
    styles[2]["zzunknown"] = 1; n_exp += 1
msgs = V.validate(c, schema_name="class")
n_w = len([m for m in msgs if m["message"] == "ERROR: Invalid value in WIDTH"])
n_s = len([m for m in msgs if m["message"] == "ERROR: Invalid value in STYLE"])
exp_w = (1 if f0 and w < 0 else 0) + (1 if f1 and w < 0 else 0) + (1 if f2 and w < 0 else 0)
exp_s = (1 if u0 else 0) + (1 if u2 else 0)
return n_w == exp_w and n_s == exp_s and len(msgs) == exp_w + exp_s
'''

INFO = {
    "explanation": "C07: real Validator.validate / _get_errors / create_message / convert_lowercase + real jsonschema on documents with "
                   "symbolic leaves; expected verdict and message names from a Draft-04 reference evaluator applied to the keyword's own "
                   "published sub-schema; object-level errors (unknown / missing keyword), hidden keys, letter case, plain vs Mapfile dicts, "
                   "lists of roots, and nested documents with faults at symbolic list indices (with C08's reported positions).",
    "files": ["mappyfile/validator.py", "mappyfile/dictutils.py", "mappyfile/utils.py"],
    "functions": ["mappyfile.validator.Validator.validate", "mappyfile.validator.Validator._get_errors", "mappyfile.validator.Validator.create_message",
                  "mappyfile.validator.Validator.get_error_messages", "mappyfile.validator.Validator.convert_lowercase",
                  "mappyfile.dictutils.findkey", "mappyfile.utils.validate", "jsonschema.Draft4Validator.iter_errors"],
    "bounds": {"numbers": "unbounded symbolic int / float", "list_len": "0..6", "nesting": "map>layers[0..2]>classes[0]>styles[0]",
               "faults": "up to 3 simultaneous (value, unknown keyword, missing required)"},
    "outside": ["`pattern` keywords are exercised with concrete strings only", "schemas are data: a self-consistent schema edit changes oracle and implementation together"],
    "assumptions": ["Draft-04 semantics: a numeric exclusiveMinimum without minimum is not a validation keyword"],
    "stubs": ["json.dumps/json.loads inside mappyfile.validator -> identity"],
}

REQVALS = {"type": "point", "name": "n", "size": [10, 10]}


def _reqvals(t):
    sch = S.expanded(t)
    out = {}
    for r in sch.get("required", []):
        cands = [s for s in S.slots() if s["type"] == t and s["key"] == r and s["value"] is not None]
        v = cands[0]["value"] if cands else "x"
        out[r] = v.lower() if isinstance(v, str) else v
    return out


def _shape(props):
    import json

    def strip(x):
        if isinstance(x, dict):
            return {k: strip(v) for k, v in x.items() if k not in ("metadata", "default", "example", "deprecated", "description")}
        if isinstance(x, list):
            return [strip(v) for v in x]
        return x
    return json.dumps(strip(props), sort_keys=True)


def obligations(tier, seed):
    obs = []
    quick = tier == "quick"
    allslots = S.simple_slots()
    seen_shapes = set()
    for t in S.object_types():
        rv = _reqvals(t)
        num = []
        lists = []
        enums = {}
        allkeys = []
        for s in allslots:
            if s["type"] != t:
                continue
            k = s["key"]
            if k in rv:
                continue
            if quick and s["kind"] in ("int", "float", "numlist", "enum"):
                # quick: one keyword per distinct schema shape over all object types (the validator's path depends on the shape only)
                sig = (s["kind"], _shape(s["props"]))
                if sig in seen_shapes and (sig, t, k) not in seen_shapes:
                    continue
                seen_shapes.add(sig)
                seen_shapes.add((sig, t, k))
            if k not in allkeys and s["kind"] != "repeated":
                allkeys.append(k)
            if s["kind"] in ("int", "float") and k not in num:
                num.append(k)
            if s["kind"] in ("numlist",) and k not in lists:
                lists.append(k)
            if s["kind"] == "enum":
                enums.setdefault(k, []).append(s["word"])
        pre0 = lambda keys: PRELUDE % dict(type=t, keys=keys, reqvals=rv)
        if num:
            P = S.expanded(t)["properties"]
            combo = [k for k in num if any(c in P[k] for c in ("oneOf", "anyOf", "allOf"))]
            pure = [k for k in num if k not in combo]
            groups = [("int", pure[ci:ci + 5], False) for ci in range(0, len(pure), 5)] + \
                     [("float", num[ci:ci + 5], True) for ci in range(0, len(num), 5)] + \
                     [("intc", combo[ci:ci + 5], True) for ci in range(0, len(combo), 5)]
            for gi, (ty, chunk, cand) in enumerate(groups):
                bnds = {float(b) for kk in chunk for lf in S.leaves(P[kk]) for b in (lf.get("minimum"), lf.get("maximum")) if b is not None}
                if ty == "float":
                    fl = sorted({1.5, 0.0} | {b + dlt for b in bnds for dlt in (-0.5, 0.0, 0.5)})
                else:
                    fl = sorted({1, 0, -7, 100000} | {int(b) + dlt for b in bnds for dlt in (-1, 0, 1)})
                src = pre0(chunk) + f"HALF = {cand}\nFLOATS = {fl!r}\n" + harness(
                    "h", [("sel", "int"), ("n", "int")], f"(sel >= 0) & (sel < {len(chunk)})" + (f" & (n >= 0) & (n < {len(fl)})" if cand else ""), NUM)
                obs.append(Ob(name=f"C07-NUM/{t}.{ty}.{gi}", source=src, pct=300, timeout=400,
                              meta={"desc": f"{t}: {len(chunk)} numeric keyword(s), {'boundary candidates' if cand else 'symbolic int'} ({ty}): verdict/message/position vs Draft-04 reference",
                                    "functions": ["Validator.validate"], "stubs": ["json in validator"]}))
        for lk in lists:
            slot = [x for x in allslots if x["type"] == t and x["key"] == lk and x["kind"] == "numlist"][0]
            n0 = len(slot["value"])
            bnds = {b for lf in S.leaves(S.expanded(t)["properties"][lk]) for it in ([lf.get("items")] if isinstance(lf.get("items"), dict) else (lf.get("items") or []))
                    if isinstance(it, dict) for l2 in S.leaves(it) for b in (l2.get("minimum"), l2.get("maximum")) if b is not None}
            cands = sorted({slot["value"][0], 0, -7, 1000} | {b + dl for b in bnds for dl in (-1, 0, 1)}) + [1.5, "x"]
            src = pre0([lk]) + f"GOOD = {slot['value'][0]!r}\nCANDS = {cands!r}\n" + harness("h", [("sel", "int"), ("k", "int"), ("a", "int"), ("first", "bool")],
                                       f"(sel == 0) & (k >= {max(0, n0 - 1)}) & (k <= {n0 + 1}) & (a >= 0) & (a < {len(cands)})", NUMLIST)
            obs.append(Ob(name=f"C07-LIST/{t}.{lk}", source=src, pct=400, timeout=500,
                          meta={"desc": f"{t}.{lk}: number list, symbolic length n-1..n+1, one symbolic element at the first or last index", "functions": ["Validator.validate", "Validator.create_message"]}))
        pkeys = [k for k, p in S.expanded(t)["properties"].items() if k in ("pattern", "points") and t in ("style", "symbol")]
        for pk in pkeys:
            src = pre0([pk]) + harness("h", [("sel", "int"), ("k", "int"), ("w", "int"), ("first", "bool"), ("arity", "bool")],
                                       "(sel == 0) & (k >= 0) & (k < 3) & (w >= 0) & (w < 6)", PAIRS)
            obs.append(Ob(name=f"C07-PAIRS/{t}.{pk}", source=src, pct=600, timeout=700,
                          meta={"desc": f"{t}.{pk}: list of pairs with a wrong-typed / wrong-arity pair at a symbolic index: verdict, message name and position",
                                "functions": ["Validator.validate", "Validator.create_message"]}))
        if enums:
            ek = [(k, w) for k, w in enums.items()]
            if quick:
                ek = ek[:6]
            src = pre0(ek) + harness("h", [("sel", "int"), ("w", "int")], f"(sel >= 0) & (sel < {len(ek)}) & (w >= 0) & (w < 16)", ENUM)
            obs.append(Ob(name=f"C07-ENUM/{t}", source=src, pct=400, timeout=500,
                          meta={"desc": f"{t}: {len(ek)} enumerated keyword(s): member words in 3 spellings, near-misses, wrong types", "functions": ["Validator.validate"]}))
        keys = allkeys if not quick else allkeys[:4]
        if keys:
            src = pre0(keys) + harness("h", [("sel", "int"), ("w", "int")], f"(sel >= 0) & (sel < {len(keys)}) & (w >= 0) & (w < 11)", WRONG)
            obs.append(Ob(name=f"C07-TYPE/{t}", source=src, pct=500, timeout=600,
                          meta={"desc": f"{t}: {len(keys)} keyword(s) x 11 values of assorted types/arity", "functions": ["Validator.validate"]}))
            k2 = (num or keys)[:2]
            for pl in (0, 1):
                src = pre0(k2) + harness("h", [("sel", "int"), ("n", "int"), ("plain", "bool"), ("up", "bool"), ("unk", "bool"), ("hid", "bool"), ("drop", "bool")],
                                         f"(sel >= 0) & (sel < {len(k2)}) & (n > -3) & (n < 3) & " + ("plain" if pl else "(not plain)"), OBJECT % dict(reqvals=rv))
                obs.append(Ob(name=f"C07-OBJECT/{t}.{'plain' if pl else 'ci'}", source=src, pct=400, timeout=500,
                              meta={"desc": f"{t}: unknown keyword / hidden keys / upper-case keys / missing required / plain dict, symbolic value", "functions": ["Validator.validate", "Validator.convert_lowercase"]}))
    p0 = PRELUDE % dict(type="map", keys=[], reqvals={})
    p0 = PRELUDE % dict(type="scalebar", keys=[], reqvals={})
    src = p0 + harness("h", [("a", "int"), ("withver", "bool")], "", "ver = 7.6\n" + LISTROOT)
    obs.append(Ob(name="C07-LISTROOT", source=src, pct=600, timeout=700, meta={"desc": "validate([d1, d2]) == validate(d1) + validate(d2)", "functions": ["mappyfile.utils.validate"]}))
    p0 = PRELUDE % dict(type="class", keys=[], reqvals={})
    src = p0 + harness("h", [("f0", "bool"), ("f1", "bool"), ("f2", "bool"), ("u0", "bool"), ("u2", "bool"), ("w", "int")], "(w > -3) & (w < 2)", COUNT)
    obs.append(Ob(name="C07-COUNT/same-fault", source=src, pct=900, timeout=1000,
                  meta={"desc": "the same value fault / unknown keyword in up to three list items without position data: exactly one message per faulty keyword and per faulty object",
                        "functions": ["Validator.validate", "Validator.get_error_messages"]}))
    for i1 in range(3):
        src = p0 + harness("h", [("f1", "bool"), ("f2", "bool"), ("f3", "bool"), ("f4", "bool"), ("i1", "int"), ("i2", "int"), ("w", "int")],
                           f"(i1 == {i1}) & (i2 >= 0) & (i2 < 3) & (w > -4) & (w < 4)", DEEP)
        obs.append(Ob(name=f"C07-DEEP/i{i1}", source=src, pct=900, timeout=1000,
                      meta={"desc": "class>styles[i]: value fault, unknown keyword in a list item and in the root at symbolic list indices; message names and positions",
                            "functions": ["Validator.validate", "Validator.create_message", "dictutils.findkey"]}))
    return obs
