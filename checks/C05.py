"""C05 — surface syntax does not change meaning.

C05-LEX   (E-LEX) scanner lemmas over a z3 model of lark's real per-state scanner, regenerated from the live grammar objects
          and validated against the real scanner on every run:
            validate   model == real scanner on random strings (translator validation)
            ignored    runs of blanks / line breaks (LF, CRLF, CR) / # comments / C comments are consumed as exactly one ignored
                       token whatever follows; no terminal anchors or looks behind, so the scan at a position depends only on
                       the text from that position on  => the non-ignored token stream does not depend on the separators
            case       every keyword terminal accepted in the state is recognised in every letter-case variant
            quoted     q s q (s without q, not ending in a backslash, not starting with '#') scans to one string token with that
                       lexeme, for q = ' and q = "   => the two quote styles carry the same content
            symmetry   for every text, swapping the two quote characters swaps only the DOUBLE_/SINGLE_ variant of the token (strings, hex
                       colours with and without alpha)
            bare       a bare word in value position scans to one word token with the word as lexeme
C05-REL   (TSP) two surface renderings of one document - upper-case one-line double-quoted vs mixed-case, CRLF, tabs, comments
          between all tokens, single-quoted / bare strings - loaded with the same symbolic string contents give equal dicts.
"""
from engine.core import Ob, harness, conj
from checks.tsp_common import PRELUDE, Hole

A = '''LAYER NAME "H01" TYPE POLYGON STATUS ON DATA "H02" CLASSITEM "H03" METADATA "k1" "H04" "wms_title" "H05" END
CLASS NAME "H06" STYLE WIDTH 2 COLOR 1 2 3 SYMBOL "H07" END LABEL SIZE 8 FONT "H08" END END PROCESSING "H09" END'''

B = ("layer /* c */ name\t'H01' # trailing\r\n  Type   polygon\r\n\r\n  sTATUS on  data\n\n'H02'\f classitem 'H03'\r\n"
     "  MetaData # opener comment\r\n   'k1'\t'H04'\n   wms_title   'H05'\r\n  end\r\n"
     "  class Name 'H06'\n    style width 2 /* a\nmulti-line\ncomment */ color 1 2\t3 symbol 'H07' END\r\n"
     "    label size 8 font 'H08' eNd # x\n  End\r\n  processing 'H09'\r\nEND\r\n")

# renderings that go through the token-stream re-tagging of Parser.parse (bare words after SYMBOL, `NAME grid` in OUTPUTFORMAT, the
# GRID block) - the keywords differ in letter case, the bare values are spelled the same
A2 = '''MAP OUTPUTFORMAT NAME grid DRIVER "H01" IMAGEMODE INT16 END OUTPUTFORMAT NAME "H02" DRIVER GDAL/GTiff END SYMBOL NAME "H03" TYPE ELLIPSE FILLED TRUE POINTS 1 1 END END
LAYER NAME "H04" TYPE POINT CLASS SYMBOL star STYLE SYMBOL circle SIZE 2 END STYLE SYMBOL 3 END STYLE SYMBOL "H05" END END END
LAYER NAME "H06" TYPE LINE GRID LABELFORMAT "H07" MINARCS 2 END END END'''

B2 = ("map /* c */ outputformat name grid driver 'H01' ImageMode INT16 end\r\n OutputFormat Name 'H02' driver GDAL/GTiff End # x\n"
      " symbol name 'H03' type ELLIPSE Filled TRUE points 1 1 end eND\n"
      "layer name 'H04' type POINT class symbol star style symbol circle size 2 end Style Symbol 3 end\tstyle symbol 'H05' end end end\n"
      "Layer Name 'H06' Type LINE grid labelformat 'H07' minarcs 2 end end end")

BODY = '''
{BUILD}
da = M.transform(PIPE.parse(TEXT_A, {HA}))
db = M.transform(PIPE.parse(TEXT_B, {HB}))
pa, pb = tsp.plain(da), tsp.plain(db)
# bare enumerated words keep their source spelling (TYPE polygon / POLYGON): compared case-insensitively, everything else exactly
def norm(x):
    if isinstance(x, list):
        return [norm(v) for v in x]
    if isinstance(x, tuple):
        if x[0] in ("type", "status"):
            return (x[0], x[1].lower())
        return (x[0], norm(x[1]))
    return x
return norm(pa) == norm(pb)
'''

INFO = {
    "explanation": "C05: scanner lemmas on a z3 model of lark's real per-state scanner (scan order, regex backtracking semantics, keyword re-typing, "
                   "%ignore set read from the live objects; validated against the real scanner each run) + a relational template-symbolic run on two "
                   "surface renderings of one document.",
    "files": ["mappyfile/mapfile.lark", "mappyfile/parser.py", "mappyfile/transformer.py", "mappyfile/quoter.py"],
    "functions": ["lark BasicLexer/Scanner of the parser states after `LAYER`, `LAYER NAME`, `LAYER METADATA` (terminals from mapfile.lark)",
                  "mappyfile.transformer.MapfileTransformer.key_name/clean_string/attr/process_value_pairs", "mappyfile.parser.Parser.parse"],
    "bounds": {"scanner_text": "L <= 12 symbolic code points (21-bit) + symbolic length; runs / strings / words up to that length, arbitrary right context",
               "states": "3 representative parser states (body, value, key-value)", "keywords": "all keyword terminals accepted in those states",
               "rel": "9 string holes x 2 code points; one pair of renderings"},
    "outside": ["lark's handling of %ignore itself and the LALR driver are third-party (trusted)", "separators longer than the bound (the lemma is per run and composes by induction, argued)",
                "parser states other than the three representatives (the same terminals with other accepted sets)"],
    "assumptions": ["CPython `re` backtracking semantics as modelled (ordered alternation, greedy/lazy repeats, negative look-ahead); validated differentially each run"],
    "stubs": ["hole lexer in C05-REL"],
}


def obligations(tier, seed):
    obs = []
    L = 12 if tier == "quick" else 16
    for ctx in ("value", "body", "kv"):
        obs.append(Ob(name=f"C05-LEX/validate.{ctx}", kind="z3", z3_call=("engine.lexmodel", "lx_validate", {"ctx": ctx, "L": 8, "n": 300 if tier == "quick" else 1500, "seed": seed}),
                      timeout=600, meta={"desc": f"scanner model == real scanner of state '{ctx}' on random strings", "functions": ["lark scanner"]}))
        obs.append(Ob(name=f"C05-LEX/ignored.{ctx}", kind="z3", z3_call=("engine.lexmodel", "lx_ignored_runs", {"ctx": ctx, "L": L - 2}), timeout=900,
                      meta={"desc": "blank runs, line-break runs (LF/CRLF/CR), # comments and C comments are each one ignored token; no anchors / look-behind", "functions": ["WS", "_NL", "COMMENT", "CCOMMENT"]}))
        obs.append(Ob(name=f"C05-LEX/case.{ctx}", kind="z3", z3_call=("engine.lexmodel", "lx_case_keywords", {"ctx": ctx}), timeout=900,
                      meta={"desc": "every keyword terminal of the state in every letter-case variant", "functions": ["keyword terminals"]}))
    for ctx in ("value", "kv"):
        for q, qn in ((34, "dq"), (39, "sq")):
            obs.append(Ob(name=f"C05-LEX/quoted.{qn}.{ctx}", kind="z3", z3_call=("engine.lexmodel", "lx_class_quoted", {"ctx": ctx, "q": q, "L": L}), timeout=900,
                          meta={"desc": f"{chr(q)}s{chr(q)} scans to one string token with that lexeme (class: no {chr(q)}, no trailing backslash, no leading #)", "functions": ["DOUBLE/SINGLE_QUOTED_STRING and competitors"]}))
        obs.append(Ob(name=f"C05-LEX/quote-symmetry.{ctx}", kind="z3", z3_call=("engine.lexmodel", "lx_quote_symmetry", {"ctx": ctx, "L": 11 if tier == "quick" else 13}), timeout=1500,
                      meta={"desc": "for every text: swapping ' and \" throughout swaps the DOUBLE_/SINGLE_ variant of the scanned token (strings, hex colours incl. alpha forms) and changes nothing else",
                            "functions": ["all terminals of the state"]}))
        obs.append(Ob(name=f"C05-LEX/bare.{ctx}", kind="z3", z3_call=("engine.lexmodel", "lx_bare_word", {"ctx": ctx, "L": 8 if tier == "quick" else 12}), timeout=900,
                      meta={"desc": "a bare word scans to one word token (or the state's keyword)", "functions": ["UNQUOTED_STRING + keyword re-typing"]}))
    holes = [Hole("H%02d" % i, L=2) for i in range(1, 10)]
    holes[6].kind = "xstr"      # SYMBOL
    holes[7].kind = "xstr"      # FONT
    params, pre, build = [], [], []
    for h in holes:
        params += h.params(); pre += h.pre(); build.append(h.build())
    ha = "{" + ", ".join(f"{chr(34) + h.marker + chr(34)!r}: '\"' + {h.var} + '\"'" for h in holes) + "}"
    hb = "{" + ", ".join(f"{chr(39) + h.marker + chr(39)!r}: \"'\" + {h.var} + \"'\"" for h in holes) + "}"
    src = PRELUDE + f"\nTEXT_A = {A!r}\nTEXT_B = {B!r}\n" + harness("h", params, conj(pre), BODY.format(BUILD="\n".join(build), HA=ha, HB=hb))
    h2 = [Hole("H%02d" % i, L=2) for i in range(1, 8)]
    h2[4].kind = "xstr"         # SYMBOL
    p2, pre2, b2 = [], [], []
    for h in h2:
        p2 += h.params(); pre2 += h.pre(); b2.append(h.build())
    ha2 = "{" + ", ".join(f"{chr(34) + h.marker + chr(34)!r}: '\"' + {h.var} + '\"'" for h in h2) + "}"
    hb2 = "{" + ", ".join(f"{chr(39) + h.marker + chr(39)!r}: \"'\" + {h.var} + \"'\"" for h in h2) + "}"
    src2 = PRELUDE + f"\nTEXT_A = {A2!r}\nTEXT_B = {B2!r}\n" + harness("h", p2, conj(pre2), BODY.format(BUILD="\n".join(b2), HA=ha2, HB=hb2))
    obs.append(Ob(name="C05-REL/retag", source=src2, pct=900, timeout=1000,
                  meta={"desc": "the same for a MAP whose tokens are re-tagged by Parser.parse (bare word after SYMBOL in CLASS / STYLE, NAME grid in OUTPUTFORMAT, GRID block, SYMBOL block): "
                                "upper-case keywords vs lower / mixed case give equal dicts",
                        "functions": ["Parser.parse (re-tagging loop)", "MapfileTransformer"], "stubs": ["hole lexer"]}))
    obs.append(Ob(name="C05-REL/renderings", source=src, pct=900, timeout=1000,
                  meta={"desc": "upper-case / one-line / double-quoted vs mixed-case / CRLF / tabs / FF / comments / single-quoted: equal dicts for all string contents",
                        "functions": ["Parser.parse", "MapfileTransformer"], "stubs": ["hole lexer"]}))
    return obs
