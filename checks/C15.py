"""C15 — INCLUDE expansion equals textual substitution, bounded at five levels.

The real ``Parser.load_includes`` / ``_get_include_filename`` / ``parse`` run under CrossHair with
``Parser.open_file`` stubbed by a file table (contract: returns the file's text or raises IOError) and
``os.getcwd`` stubbed by a symbolic directory.  Directive spelling (keyword case, quote style, leading
white space, trailing # comment, LF/CRLF), tree shape (which lines of which file are directives, fan-out,
depth, cycles), and the root file's location are chosen by symbolic tags; the result is compared with a
reference substitution written from the statement.
"""
from engine.core import Ob, HEADER, harness, chars, chr_expr, conj

PRELUDE = HEADER + '''
import os
import mappyfile.parser as MP
from mappyfile.parser import Parser
from engine import tsp

OPENED = []


class StubParser(Parser):
    """Parser whose open_file is the documented contract over an in-memory file table"""
    table = {}

    def __init__(self, **kw):
        self.expand_includes = kw.get("expand_includes", True)
        self.include_comments = False
        self._comments = []
        self.lalr = None
        self.kwargs = {}

    def open_file(self, fn):
        OPENED.append(fn)
        if fn in self.table:
            return self.table[fn]
        raise IOError("missing " + fn)


KW = ["INCLUDE", "include", "Include", "iNCLUDE"]
WS = ["", "  ", "\\t", " \\t "]
TRAIL = ["", " # a comment", "#c", "   # INCLUDE 'other.map'", " "]


def directive(name, kw, ws, qs, tr, crlf):
    q = ["", "'", '"'][qs]
    return WS[ws] + KW[kw] + " " + q + name + q + TRAIL[tr] + ("\\r" if crlf else "")


def ref_expand(text, table, base, depth):
    """the statement: replace each INCLUDE line by the referenced file's (expanded) content; relative names against `base`"""
    out = []
    for line in text.split("\\n"):
        if line.strip().lower().startswith("include"):
            if depth == 5:
                raise ValueError("depth")
            body = line.split("#")[0].split()
            name = body[1].strip("'").strip('"')
            path = name if name.startswith("/") else os.path.normpath(os.path.join(base, name))
            if path not in table:
                raise IOError(path)
            out.append(ref_expand(table[path], table, base, depth + 1))
        else:
            out.append(line)
    return "\\n".join(out)
'''

SUB = '''
# root file in /data/maps; three includable files; which lines of the root and of b.map are directives is symbolic
base = "/data/maps"
table = {
    "/data/maps/a.map": "LAYER\\n NAME 'a'\\nEND",
    "/data/maps/sub/b.map": ("CLASS\\n" + (directive("c.map", kw2, ws2, qs2, tr2, False) if nest else " NAME 'b'") + "\\nEND"),
    "/data/maps/c.map": "STYLE\\n WIDTH 2\\nEND" + ("\\n" if tailnl else ""),
    "/abs/d.map": "# only a comment",
}
names = ["a.map", "sub/b.map", "c.map", "/abs/d.map", "./a.map", "sub/../c.map"]
lines = ["MAP", " NAME 'root'"]
if d1:
    lines.append(directive(names[n1], kw, ws, qs, tr, crlf))
lines.append(" WEB" + ("\\r" if crlf else ""))
lines.append(' IMAGEPATH "include/not/a/directive"')
lines.append(" END")
if d2:
    lines.append(directive(names[n2], kw2, ws2, qs2, tr2, crlf))
lines.append("END")
text = "\\n".join(lines)
p = StubParser()
p.table = table
del OPENED[:]
got = p.load_includes(text, fn="/data/maps/root.map")
exp = ref_expand(text, table, base, 0)
return got == exp
'''

DEPTH = '''
# chain f0 -> f1 -> ... -> f(n-1); n symbolic: expands iff n <= 5, deeper or cyclic raises ValueError (never recurses for ever)
table = {}
for i in range(8):
    nxt = ("INCLUDE 'f%d.map'" % (i + 1)) if i + 1 < n else ("INCLUDE 'f%d.map'" % back if cyc else "NAME 'leaf'")
    table["/r/f%d.map" % i] = "# f%d\\n" % i + nxt
root = "MAP\\nINCLUDE 'f0.map'\\nEND" if n > 0 else "MAP\\nNAME 'x'\\nEND"
p = StubParser()
p.table = table
try:
    got = p.load_includes(root, fn="/r/root.map")
    ok = True
except ValueError:
    ok = False
if cyc and n > 0:
    return not ok
if n > 5:
    return not ok
if not ok:
    return False
exp = "MAP\\n" + "".join("# f%d\\n" % i for i in range(n)) + ("NAME 'leaf'" if n > 0 else "NAME 'x'") + "\\nEND"
return got == exp
'''

DEPTH2 = '''
# root includes `sib` leaf files and then a chain of n files: the limit counts nesting depth, so the chain still expands iff n <= 5
table = {}
for i in range(8):
    table["/r/f%d.map" % i] = "# f%d\\n" % i + (("INCLUDE 'f%d.map'" % (i + 1)) if i + 1 < n else "NAME 'leaf'")
for j in range(4):
    table["/r/s%d.map" % j] = "# sibling %d" % j
root = "MAP\\n" + "".join("INCLUDE 's%d.map'\\n" % j for j in range(sib)) + "INCLUDE 'f0.map'\\nEND"
p = StubParser()
p.table = table
try:
    got = p.load_includes(root, fn="/r/root.map")
    ok = True
except ValueError:
    ok = False
if n > 5:
    return not ok
if not ok:
    return False
exp = "MAP\\n" + "".join("# sibling %d\\n" % j for j in range(sib)) + "".join("# f%d\\n" % i for i in range(n)) + "NAME 'leaf'\\nEND"
return got == exp
'''

PATH = '''
# relative names resolve against the root file's directory (fn given) or the working directory (plain strings),
# whatever the process's current directory is; absolute names are untouched
dirs = ["/srv/maps", "/", "/a/b/c"]
cwds = ["/tmp/x", "/srv", "/a/b"]
real_getcwd = os.getcwd
os.getcwd = lambda: cwds[cw]
try:
    p = StubParser()
    want_base = dirs[di] if have_fn else cwds[cw]
    rel = ["inc.map", "sub/inc.map", "../inc.map", "./inc.map"][ri]
    name = "/abs/inc.map" if absolute else rel
    target = name if absolute else os.path.normpath(os.path.join(want_base, rel))
    p.table = {target: "NAME 'inc'"}
    del OPENED[:]
    fn = (dirs[di].rstrip("/") + "/root.map") if have_fn else None
    got = p.load_includes("MAP\\nINCLUDE '" + name + "'\\nEND", fn=fn)
    return OPENED == [target] and got == "MAP\\nNAME 'inc'\\nEND"
finally:
    os.getcwd = real_getcwd
'''

MISSING = '''
p = StubParser()
p.table = {"/r/a.map": "INCLUDE 'gone.map'" if deep else "NAME 'a'"}
text = "MAP\\nINCLUDE '" + ("a.map" if deep else "gone.map") + "'\\nEND"
try:
    p.load_includes(text, fn="/r/root.map")
except IOError:
    return True
return False
'''

IDENT = '''
# the INCLUDE pre-pass runs on every text (expand_includes is the default): a text without INCLUDE directives comes out unchanged,
# whatever characters its strings contain (form feed, CR, NEL, U+2028 ... are not line breaks for the pre-pass)
s = {S}
text = "MAP" + nl + '  NAME "' + s + '"' + nl + "  # include nothing" + nl + "END"
return StubParser().load_includes(text, fn="/r/root.map") == text and StubParser().load_includes(text) == text
'''

KEEP = '''
# expand_includes=False: directives are kept as data, in order, and written back unchanged
s1 = {S1}; s2 = {S2}
tree = PIPE.parse(TEXT, {{'"H1"': '"' + s1 + '"', "'H2'": "'" + s2 + "'"}})
d = M.transform(tree)
lines = PP._format(d)
ok = d["include"] == [s1, s2] and d["layers"][0]["include"] == [s2] and d["symbols"][0]["include"] == [s1]
ok = ok and d["layers"][0]["classes"][0]["include"] == ["inc_class.map"] and d["layers"][0]["classes"][0]["styles"][0]["include"] == ["inc_style.map"]
return ok and lines == [
    "MAP", '    INCLUDE "' + s1 + '"', '    INCLUDE "' + s2 + '"', '    NAME "x"', "    LAYER", '        INCLUDE "' + s2 + '"', "        CLASS", '            INCLUDE "inc_class.map"',
    "            STYLE", '                INCLUDE "inc_style.map"', "            END", "        END", "    END", "    SYMBOL", '        INCLUDE "' + s1 + '"', '        NAME "s"', "    END", "END"]
'''

KEEP_PRE = '''
from mappyfile.transformer import MapfileToDict
M = MapfileToDict()
PIPE = tsp.pipe(expand_includes=False)       # built at import time, outside tracing
PP = tsp.printer(tsp.ALL_TYPES, indent=4, quote='"')
TEXT = """MAP
  INCLUDE "H1"
  include 'H2'
  NAME "x"
  LAYER
    INCLUDE 'H2'
    CLASS
      include "inc_class.map"
      STYLE
        INCLUDE "inc_style.map"
      END
    END
  END
  SYMBOL
    INCLUDE "H1"
    NAME "s"
  END
END"""


def okc(c):
    return (c >= 33) & (c < 0x3000) & (c != 34) & (c != 39) & (c != 92) & (c != 35)
'''

PARSE = '''
# Parser.parse with expand_includes on hands the *expanded* text to the LALR parser, with it off the text itself
seen = []
class FakeLalr:
    def parse_interactive(self, text):
        seen.append(text)
        raise MP.ParseError("stop here")
p = StubParser(expand_includes=exp)
p.lalr = FakeLalr()
p.table = {"/r/a.map": "NAME 'a'"}
text = "MAP\\nINCLUDE 'a.map'\\nEND"
try:
    p.parse(text, fn="/r/root.map")
except MP.ParseError:
    pass
return seen == ["MAP\\nNAME 'a'\\nEND" if exp else text]
'''

INFO = {
    "explanation": "C15: real load_includes/_get_include_filename/parse executed symbolically over directive spellings, tree shapes, "
                   "depths 0..8, cycles, missing files and root locations, against a reference substitution; expand_includes=False through "
                   "the template-symbolic pipeline with symbolic file names.",
    "files": ["mappyfile/parser.py", "mappyfile/transformer.py", "mappyfile/pprint.py", "mappyfile/tokens.py"],
    "functions": ["mappyfile.parser.Parser.load_includes", "mappyfile.parser.Parser._get_include_filename", "mappyfile.parser.Parser.parse",
                  "mappyfile.transformer.MapfileTransformer.composite", "mappyfile.pprint.PrettyPrinter.process_repeated_list"],
    "bounds": {"files": 4, "fanout": 2, "depth": "0..8", "spellings": "4 keyword cases x 4 leading ws x 3 quote styles x 5 trailers x LF/CRLF",
               "keep_names": "2 symbolic names, 1..3 code points"},
    "outside": ["real files, directories and process working directories (I/O): decided against the stubbed contract of open_file / getcwd",
                "INCLUDE inside multi-line strings or comments (the statement limits directives to their own line outside strings and comments)"],
    "assumptions": ["open_file(fn) returns the file's text or raises IOError"],
    "stubs": ["Parser.open_file -> in-memory table", "os.getcwd -> symbolic choice of directory", "Lark parser object replaced by a recorder in C15-PARSE"],
}


def obligations(tier, seed):
    obs = []
    tag = lambda n, k: f"({n} >= 0) & ({n} < {k})"
    import random
    rnd = random.Random(seed)
    combos = [(i % 4, (i * 3 + 1) % 4, i % 3, i % 5, i % 2, (i + 1) % 4, (i + 2) % 3, (i + 3) % 5) for i in range(12 if tier == "quick" else 20)]
    if tier != "quick":
        combos += [(rnd.randrange(4), rnd.randrange(4), rnd.randrange(3), rnd.randrange(5), rnd.randrange(2), rnd.randrange(4), rnd.randrange(3), rnd.randrange(5)) for _ in range(40)]
    for ci, (kw, ws, qs, tr, crlf, kw2, qs2, tr2) in enumerate(combos):
        # the directive spelling is fixed per obligation (generator-enumerated); which lines are directives, which files they name and
        # whether an included file includes another stay symbolic
        params = [("d1", "bool"), ("d2", "bool"), ("n1", "int"), ("n2", "int"), ("nest", "bool"), ("tailnl", "bool")]
        pre = conj([tag("n1", 6), tag("n2", 6)])
        defs = f"kw, ws, qs, tr, crlf, kw2, ws2, qs2, tr2 = {kw}, {ws}, {qs}, {tr}, {bool(crlf)}, {kw2}, {(ws + 1) % 4}, {qs2}, {tr2}\n"
        obs.append(Ob(name=f"C15-SUB/spelling{ci}", source=PRELUDE + defs + harness("h", params, pre, SUB), pct=600, timeout=700,
                      meta={"desc": f"load_includes == reference textual substitution; spelling kw={kw} ws={ws} quote={qs} trailer={tr} crlf={crlf}; tree shape symbolic",
                            "stubs": ["open_file table"], "functions": ["Parser.load_includes", "Parser._get_include_filename"]}))
    obs.append(Ob(name="C15-DEPTH", source=PRELUDE + harness("h", [("n", "int"), ("cyc", "bool"), ("back", "int")], "(n >= 0) & (n <= 8) & (back >= 0) & (back < 8) & (back < n)", DEPTH),
                  pct=600, timeout=700, meta={"desc": "chain length 0..8 and cycles: expands iff <= 5 deep, else ValueError", "functions": ["Parser.load_includes"]}))
    obs.append(Ob(name="C15-DEPTH2", source=PRELUDE + harness("h", [("n", "int"), ("sib", "int")], "(n >= 1) & (n <= 7) & (sib >= 0) & (sib <= 4)", DEPTH2),
                  pct=600, timeout=700, meta={"desc": "0..4 sibling includes before a chain of 1..7: expands iff the chain is <= 5 deep (depth, not directive count)", "functions": ["Parser.load_includes"]}))
    obs.append(Ob(name="C15-PATH", source=PRELUDE + harness("h", [("di", "int"), ("cw", "int"), ("ri", "int"), ("have_fn", "bool"), ("absolute", "bool")],
                                                              conj([tag("di", 3), tag("cw", 3), tag("ri", 4)]), PATH),
                  pct=600, timeout=700, meta={"desc": "relative names resolve against the root file's directory / cwd; absolute untouched", "stubs": ["os.getcwd"], "functions": ["Parser.load_includes"]}))
    obs.append(Ob(name="C15-MISSING", source=PRELUDE + harness("h", [("deep", "bool")], "", MISSING), pct=200, timeout=300,
                  meta={"desc": "missing file -> IOError", "functions": ["Parser.load_includes"]}))
    obs.append(Ob(name="C15-PARSE", source=PRELUDE + harness("h", [("exp", "bool")], "", PARSE), pct=200, timeout=300,
                  meta={"desc": "parse() hands the expanded text to the parser iff expand_includes", "functions": ["Parser.parse"]}))
    for L in ((1, 2) if tier == "quick" else (1, 2, 3)):
        cs = chars("c", L)
        pre = conj([f"({n} >= 1) & ({n} < 0x3000) & ({n} != 10)" for n, _ in cs])
        for nl, nm in (("\n", "lf"), ("\r\n", "crlf")):
            src = PRELUDE + f"nl = {nl!r}\n" + harness("h", cs, pre, IDENT.format(S=chr_expr("c", L)))
            obs.append(Ob(name=f"C15-IDENT/{nm}.L{L}", source=src, pct=600, timeout=700,
                          meta={"desc": f"load_includes is the identity on INCLUDE-free text whose string holds {L} arbitrary code points (1..0x2FFF except LF), {nm} line ends",
                                "functions": ["Parser.load_includes"]}))
    for L1, L2 in ((1, 3), (3, 1)) if tier == "quick" else ((1, 1), (1, 3), (3, 1), (2, 4), (5, 2)):
        cs = chars("a", L1) + chars("b", L2)
        src = PRELUDE + KEEP_PRE + harness("h", cs, conj([f"okc({n})" for n, _ in cs]), KEEP.format(S1=chr_expr("a", L1), S2=chr_expr("b", L2)))
        obs.append(Ob(name=f"C15-KEEP/L{L1}{L2}", source=src, pct=600, timeout=700,
                      meta={"desc": "expand_includes=False: INCLUDE names (symbolic) kept as a list in order and printed back", "functions": ["MapfileTransformer.composite", "PrettyPrinter._format"]}))
    return obs
