"""C18 — update / find / findall / findunique / findkey obey their documented laws.

CrossHair harnesses on the real ``mappyfile.dictutils`` functions against short reference models
written from the property statement (DESIGN §4 C18).  Items are the auto-creating dicts that
``loads`` returns as well as plain dicts; presence of the searched key, the values and the query
are symbolic.
"""
from engine.core import Ob, HEADER, harness, chars, chr_expr, conj

PRELUDE = HEADER + '''
from collections import OrderedDict
from mappyfile.ordereddict import CaseInsensitiveOrderedDict as CI
from mappyfile import dictutils
import mappyfile


def okc(c):
    return (c >= 97) & (c <= 99)          # 'a'..'c' : tiny alphabet, makes prefixes/substrings likely


def mk(kind, i, present, val):
    """item i: an auto-creating Mapfile dict (as returned by loads) or a plain dict"""
    d = CI(CI) if kind == 0 else (OrderedDict() if kind == 1 else {})
    d["__type__"] = "layer"
    d["name"] = "L%d" % i
    if present:
        d["group"] = val
    d["status"] = "on"
    return d


def snap(d):
    return list(dict.items(d))


def unchanged(items, snaps):
    for it, sn in zip(items, snaps):
        if snap(it) != sn:
            return False
    return True
'''

FIND_BODY = '''
va = {VA}; vb = {VB}; vc = {VC}; q = {Q}
items = [mk(kind, 0, pa, va), mk(kind, 1, pb, vb), mk(kind, 2, pc, vc)]
pres = [pa, pb, pc]; vals = [va, vb, vc]
snaps = [snap(it) for it in items]
key = "GROUP" if upper else "group"
'''

FIND = FIND_BODY + '''
got = dictutils.find(items, key, q)
exp = None
for i in range(3):
    if pres[i] and vals[i] == q:
        exp = items[i]
        break
return (got is exp) and unchanged(items, snaps)
'''

FINDALL = FIND_BODY + '''
got = mappyfile.findall(items, key, q)
exp = [items[i] for i in range(3) if pres[i] and vals[i] == q]
return len(got) == len(exp) and all(g is e for g, e in zip(got, exp)) and unchanged(items, snaps)
'''

FINDALL_LIST = FIND_BODY + '''
q2 = {Q2}
got = mappyfile.findall(items, key, [q, q2])
exp = [items[i] for i in range(3) if pres[i] and (vals[i] == q or vals[i] == q2)]
return len(got) == len(exp) and all(g is e for g, e in zip(got, exp)) and unchanged(items, snaps)
'''

FINDUNIQUE = FIND_BODY + '''
got = mappyfile.findunique(items, key)
seen = []
for i in range(3):
    if pres[i] and vals[i] not in seen:
        seen.append(vals[i])
exp = sorted(seen)
return got == exp and unchanged(items, snaps)
'''

FINDALL_NUM = '''
# numeric values, including falsy ones: an item whose key equals the value asked for is returned
items = [mk(kind, 0, pa, n0), mk(kind, 1, pb, n1), mk(kind, 2, pc, n2)]
pres = [pa, pb, pc]; vals = [n0, n1, n2]
snaps = [snap(it) for it in items]
got = mappyfile.findall(items, "group", [q])
exp = [items[i] for i in range(3) if pres[i] and vals[i] == q]
got1 = dictutils.find(items, "group", q)
exp1 = exp[0] if exp else None
return len(got) == len(exp) and all(g is e for g, e in zip(got, exp)) and (got1 is exp1) and unchanged(items, snaps)
'''

FINDKEY = '''
# findkey follows a key / index path and returns the element itself
leaf = CI(CI); leaf["__type__"] = "class"; leaf["name"] = v0
lay0 = CI(CI); lay0["__type__"] = "layer"; lay0["name"] = v1; lay0["classes"] = [leaf]
lay1 = CI(CI); lay1["__type__"] = "layer"; lay1["name"] = v2; lay1["classes"] = []
d = CI(CI); d["__type__"] = "map"; d["layers"] = [lay0, lay1]; d["web"] = CI(CI); d["web"]["imagepath"] = v0
paths = [((), d), (("layers",), d["layers"]), (("layers", 0), lay0), (("LAYERS", 1), lay1), (("layers", 0, "classes", 0), leaf),
         (("layers", 0, "classes", 0, "name"), v0), (("web", "imagepath"), v0), (("layers", 1, "NAME"), v2)]
pth, exp = paths[sel]
got = mappyfile.findkey(d, *pth)
if isinstance(exp, int):
    return got == exp
return got is exp
'''

# ---- update -------------------------------------------------------------------------------------
UPD_PRE = '''

def ref_update(d1, d2, overwrite):
    """reference written from the property statement (plain recursion, no special objects)"""
    if isinstance(d2, dict) and d2.get("__delete__", False):
        return {}
    for k, v in d2.items():
        if isinstance(v, dict):
            if v.get("__delete__", False):
                if k in d1:
                    del d1[k]
            else:
                d1[k] = ref_update(d1[k] if k in d1 else {}, v, overwrite)
        elif isinstance(v, (list, tuple)) and all(x is None or isinstance(x, dict) for x in v):
            orig = d1[k] if k in d1 else []
            out = []
            for i in range(max(len(orig), len(v))):
                o = orig[i] if i < len(orig) else None
                n = v[i] if i < len(v) else None
                if n is None:
                    if o is not None:
                        out.append(o)
                    continue
                if n.get("__delete__", False):
                    continue
                out.append(ref_update(o if o is not None else {}, n, overwrite))
            d1[k] = out
        elif isinstance(v, str) and v == "__delete__":
            if k in d1:
                del d1[k]
        else:
            if overwrite or k not in d1:
                d1[k] = v
    return d1


def plain(x):
    """structure with plain containers, for comparison"""
    if isinstance(x, dict):
        return [(k, plain(v)) for k, v in x.items()]
    if isinstance(x, (list, tuple)):
        return [plain(v) for v in x]
    return x


def base(a, b, c, e, f, kind):
    """d1: a small Mapfile-shaped dict with symbolic scalar leaves"""
    D = (lambda: CI(CI)) if kind == 0 else OrderedDict
    cls = D(); cls["__type__"] = "class"; cls["name"] = e
    l0 = D(); l0["__type__"] = "layer"; l0["name"] = b; l0["status"] = c; l0["classes"] = [cls]
    l1 = D(); l1["__type__"] = "layer"; l1["name"] = f; l1["status"] = c
    web = D(); web["__type__"] = "web"; web["imagepath"] = e; web["imageurl"] = f
    d = D(); d["__type__"] = "map"; d["name"] = a; d["size"] = [b, c]; d["web"] = web; d["layers"] = [l0, l1]; d["debug"] = c
    return d


def patch(tn, tw, tl, tx, x, y):
    """d2 chosen by symbolic tags: which keys it speaks about and how"""
    p = OrderedDict()
    if tn == 1:
        p["name"] = x
    elif tn == 2:
        p["name"] = "__delete__"
    elif tn == 3:
        p["template"] = "__delete__"      # deleting a key d1 does not have: nothing to remove, nothing to add
    if tw == 1:
        p["web"] = {"imagepath": x, "template": y}
    elif tw == 2:
        p["web"] = {"__delete__": True}
    elif tw == 3:
        p["web"] = "__delete__"
    elif tw == 4:
        p["web"] = {"imageurl": "__delete__", "metadata": {"k": y}}
    if tl == 1:
        p["layers"] = [None, {"name": x, "type": y}]
    elif tl == 2:
        p["layers"] = [{"__delete__": True}, None]
    elif tl == 3:
        p["layers"] = [None, None, {"__type__": "layer", "name": y}]
    elif tl == 4:
        p["layers"] = [{"classes": [{"name": x}, {"__type__": "class", "name": y}], "status": "__delete__"}]
    elif tl == 5:
        p["layers"] = [{"classes": [{"__delete__": True}]}, {"__delete__": True}]
    elif tl == 6:
        # several appended items that differ: each becomes its own object
        p["layers"] = [None, None, {"__type__": "layer", "name": x}, {"__type__": "layer", "name": y, "type": x}, {"status": y}]
    elif tl == 7:
        p["outputformats"] = [{"name": x}, {"name": y, "driver": x}]      # key absent from d1: every item is appended
    if tx == 1:
        p["extent"] = [x, y, x, y]
    elif tx == 2:
        p["size"] = [y, x]
    elif tx == 3:
        p["scalebar"] = {"__type__": "scalebar", "width": x}
    return p
'''

UPDATE = '''
d1 = base(a, b, c, e, f, kind)
r1 = base(a, b, c, e, f, 1)
p1 = patch(tn, tw, tl, tx, x, y)
p2 = patch(tn, tw, tl, tx, x, y)
psnap = plain(p1)
got = mappyfile.update(d1, p1, overwrite=ow)
exp = ref_update(r1, p2, ow)
return (got is d1) and plain(got) == plain(exp) and plain(p1) == psnap
'''

UPDATE_IDEM = '''
# updating twice with the same patch changes nothing the second time (no deletions involved)
d1 = base(a, b, c, e, f, kind)
p1 = patch(tn, tw, tl, tx, x, y)
once = plain(mappyfile.update(d1, p1, overwrite=ow))
twice = plain(mappyfile.update(d1, patch(tn, tw, tl, tx, x, y), overwrite=ow))
return once == twice
'''

INFO = {
    "explanation": "C18: the real update/find/findall/findunique/findkey executed symbolically on bounded Mapfile-shaped dicts "
                   "(symbolic leaves, symbolic presence of the searched key, symbolic patch shape tags, both overwrite modes) "
                   "and compared with reference models written from the property statement; arguments are checked unchanged.",
    "files": ["mappyfile/dictutils.py", "mappyfile/ordereddict.py"],
    "functions": ["mappyfile.dictutils.find", "mappyfile.dictutils.findall", "mappyfile.dictutils.findunique",
                  "mappyfile.dictutils.findkey", "mappyfile.dictutils.update"],
    "bounds": {"find_items": 3, "value_len": "0..2 over alphabet a..c", "query_len": "0..2", "update_depth": 3,
               "patch_shapes": "4 x 5 x 8 x 4 tags", "item_kinds": ["CaseInsensitiveOrderedDict(auto-creating)", "OrderedDict", "dict"]},
    "outside": ["patches that delete a key absent from d1 via a dict marker, None placeholders beyond the end of the list, "
                "empty-list values (statement silent)", "lists longer than 3"],
    "assumptions": [],
    "stubs": [],
}

ITEM = [("kind", "int"), ("pa", "bool"), ("pb", "bool"), ("pc", "bool"), ("upper", "bool")]


def _find_obs(tier):
    obs = []
    shapes = [(1, 1, 2, 1), (2, 1, 1, 2), (1, 2, 0, 1), (2, 2, 1, 1)] if tier == "quick" else \
        [(a, b, c, q) for a in (1, 2) for b in (0, 1, 2) for c in (1, 2) for q in (0, 1, 2)]
    for name, tmpl in (("find", FIND), ("findall", FINDALL), ("findall_list", FINDALL_LIST), ("findunique", FINDUNIQUE)):
        for (la, lb, lc, lq) in shapes:
            params = ITEM + chars("a", la) + chars("b", lb) + chars("c", lc) + chars("q", lq)
            extra = chars("r", 1) if name == "findall_list" else []
            params = params + extra
            pre = conj(["(kind >= 0) & (kind < 3)"] + [f"okc({n})" for n, t in params if t == "int" and n != "kind"])
            body = tmpl.format(VA=chr_expr("a", la), VB=chr_expr("b", lb), VC=chr_expr("c", lc), Q=chr_expr("q", lq), Q2=chr_expr("r", 1))
            src = PRELUDE + harness("h", params, pre, body)
            obs.append(Ob(name=f"C18-FIND/{name}.{la}{lb}{lc}{lq}", source=src, pct=300, timeout=400,
                          meta={"desc": f"{name} on 3 items (symbolic presence/values len {la},{lb},{lc}; query len {lq}) vs reference; items unchanged",
                                "bounds": {"lens": [la, lb, lc, lq], "alphabet": "a..c"},
                                "functions": [f"mappyfile.dictutils.{name.split('_')[0]}"]}))
    params = [("kind", "int"), ("pa", "bool"), ("pb", "bool"), ("pc", "bool"), ("n0", "int"), ("n1", "int"), ("n2", "int"), ("q", "int")]
    src = PRELUDE + harness("h", params, "(kind >= 0) & (kind < 3)", FINDALL_NUM)
    obs.append(Ob(name="C18-FIND/numeric", source=src, pct=300, timeout=400,
                  meta={"desc": "find/findall with symbolic int values (falsy included)", "functions": ["mappyfile.dictutils.findall", "mappyfile.dictutils.find"]}))
    src = PRELUDE + harness("h", [("sel", "int"), ("v0", "int"), ("v1", "int"), ("v2", "int")], "(sel >= 0) & (sel < 8)", FINDKEY)
    obs.append(Ob(name="C18-FIND/findkey", source=src, pct=200, timeout=300,
                  meta={"desc": "findkey over 8 key/index paths", "functions": ["mappyfile.dictutils.findkey"]}))
    return obs


def _update_obs(tier):
    obs = []
    params = [("a", "int"), ("b", "int"), ("c", "int"), ("e", "int"), ("f", "int"), ("x", "int"), ("y", "int"),
              ("kind", "int"), ("tn", "int"), ("tw", "int"), ("tl", "int"), ("tx", "int"), ("ow", "bool")]
    for tl in range(8):
        pre = f"(kind >= 0) & (kind < 2) & (tn >= 0) & (tn < 4) & (tw >= 0) & (tw < 5) & (tl == {tl}) & (tx >= 0) & (tx < 4)"
        src = PRELUDE + UPD_PRE + harness("h", params, pre, UPDATE)
        obs.append(Ob(name=f"C18-UPDATE/law.tl{tl}", source=src, pct=400, timeout=500,
                      meta={"desc": "update(d1, d2, overwrite) == reference merge for every patch-shape tag combination; d2 unchanged",
                            "bounds": {"tags": "tn<3, tw<5, tx<4", "tl": tl}, "functions": ["mappyfile.dictutils.update"]}))
    pre = "(kind >= 0) & (kind < 2) & ((tn == 0) | (tn == 1)) & ((tw == 0) | (tw == 1)) & ((tl == 0) | (tl == 1) | (tl == 3)) & (tx >= 0) & (tx < 4)"
    src = PRELUDE + UPD_PRE + harness("h", params, pre, UPDATE_IDEM)
    obs.append(Ob(name="C18-UPDATE/idempotent", source=src, pct=400, timeout=500,
                  meta={"desc": "update applied twice == applied once (non-deleting patches)", "functions": ["mappyfile.dictutils.update"]}))
    return obs


def obligations(tier, seed):
    return _find_obs(tier) + _update_obs(tier)
