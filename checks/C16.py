"""C16 — pretty-printer layout contract (also serves C06's option relation, see checks/C06.py).

C16-LAYOUT  a document covering every block kind (object blocks, key-value blocks, PROJECTION, POINTS x1 / x2,
            PATTERN, CONFIG, repeated keys, nested lists of objects) with symbolic string / number leaves is printed by
            the real PrettyPrinter under symbolic options; the complete line list must equal a layout written from the
            statement: indentation = depth x indent copies of spacer, END at the opener's depth, `END # TYPE` iff
            end_comment, alignment column = first multiple of indent past the longest simple keyword, final text =
            newlinechar.join(lines).
C16-ALIGN   compute_aligned_max_indent translated from its AST to QF_BVFP/Int SMT (E-ARITH): for key length <= 1023 and
            indent 0..64 it is the first multiple of max(1, indent) strictly greater than the key length.
"""
from engine.core import Ob, HEADER, harness, chars, chr_expr, conj

PRELUDE = HEADER + '''
from mappyfile.ordereddict import CaseInsensitiveOrderedDict as CI
from mappyfile.pprint import PrettyPrinter
from engine import tsp

_WARM = tsp.printer(["map", "web", "layer", "class", "style", "feature", "symbol", "label", "scalebar"])   # resolve schema proxies outside tracing
_VALIDATOR = _WARM.validator


def okc(c):
    return (c >= 32) & (c < 0x3000) & (c != 34) & (c != 39) & (c != 92)


def D(t):
    d = CI(CI)
    d["__type__"] = t
    return d


def doc(s, n):
    m = D("map")
    m["name"] = s
    m["extent"] = [0, 0, n, 10.5]
    m["projection"] = ["init=epsg:4326"]
    m["config"] = CI(CI); m["config"]["ms_errorfile"] = s
    web = D("web"); web["imagepath"] = "/tmp/"
    md = CI(CI); md["__type__"] = "metadata"; md["wms_title"] = s; md["k"] = "v"
    web["metadata"] = md
    m["web"] = web
    sb = D("scalebar"); sb["intervals"] = 4
    m["scalebar"] = sb                 # a singleton child block whose name (8) is longer than every simple keyword of MAP (7): not counted for alignment
    sym = D("symbol"); sym["name"] = "sq"; sym["type"] = "vector"; sym["points"] = [(1, 1), (n, 2)]
    m["symbols"] = [sym]
    st = D("style"); st["symbol"] = 7; st["width"] = n; st["pattern"] = [(2, 4)]; st["color"] = [1, 2, 3]; st["colorrange"] = ["#000000", "#ffffff"]
    lb = D("label"); lb["size"] = n
    cl = D("class"); cl["name"] = s; cl["styles"] = [st]; cl["labels"] = [lb]
    ft = D("feature"); ft["points"] = [[(1, 1), (2, 2)], [(3, 3), (4, 4)]]
    ly = D("layer"); ly["name"] = "l1"; ly["type"] = "polygon"; ly["processing"] = ["BANDS=1", s]
    ly["features"] = [ft]; ly["classes"] = [cl]
    ly2 = D("layer"); ly2["connectionoptions"] = CI(CI); ly2["connectionoptions"]["__type__"] = "connectionoptions"; ly2["connectionoptions"]["flatten"] = "YES"
    ly2["status"] = "on"
    m["layers"] = [ly, ly2]
    m["fontset"] = s                   # a simple keyword after nested blocks: its column is MAP's, not the last child's
    cl["template"] = "t.html"          # likewise inside CLASS, after STYLE / LABEL
    return m


def spec(s, n, Q):
    """(depth, kind, key, value, object id): the statement's reading of doc(); kind kv = simple keyword line"""
    q = lambda x: Q + x + Q
    return [
        (0, "open", "MAP", None, None),
        (1, "kv", "NAME", q(s), "map"),
        (1, "kv", "EXTENT", "0 0 " + repr(n) + " 10.5", "map"),
        (1, "open", "PROJECTION", None, None), (2, "raw", q("init=epsg:4326"), None, None), (1, "end", "PROJECTION", None, None),
        (1, "cfg", "CONFIG " + q("MS_ERRORFILE"), q(s), None),
        (1, "open", "WEB", None, None),
        (2, "kv", "IMAGEPATH", q("/tmp/"), "web"),
        (2, "open", "METADATA", None, None), (3, "kvq", q("wms_title"), q(s), "md"), (3, "kvq", q("k"), q("v"), "md"), (2, "end", "METADATA", None, None),
        (1, "end", "WEB", None, None),
        (1, "open", "SCALEBAR", None, None), (2, "kv", "INTERVALS", "4", "scalebar"), (1, "end", "SCALEBAR", None, None),
        (1, "open", "SYMBOL", None, None),
        (2, "kv", "NAME", q("sq"), "symbol"), (2, "kv", "TYPE", "VECTOR", "symbol"),
        (2, "open", "POINTS", None, None), (3, "raw", "1 1", None, None), (3, "raw", repr(n) + " 2", None, None), (2, "end", "POINTS", None, None),
        (1, "end", "SYMBOL", None, None),
        (1, "open", "LAYER", None, None),
        (2, "kv", "NAME", q("l1"), "layer"), (2, "kv", "TYPE", "POLYGON", "layer"),
        (2, "kv", "PROCESSING", q("BANDS=1"), "layer"), (2, "kv", "PROCESSING", q(s), "layer"),
        (2, "open", "FEATURE", None, None),
        (3, "open", "POINTS", None, None), (4, "raw", "1 1", None, None), (4, "raw", "2 2", None, None), (3, "end", "POINTS", None, None),
        (3, "open", "POINTS", None, None), (4, "raw", "3 3", None, None), (4, "raw", "4 4", None, None), (3, "end", "POINTS", None, None),
        (2, "end", "FEATURE", None, None),
        (2, "open", "CLASS", None, None),
        (3, "kv", "NAME", q(s), "class"),
        (3, "open", "STYLE", None, None),
        (4, "kv", "SYMBOL", "7", "style"),
        (4, "kv", "WIDTH", repr(n), "style"),
        (4, "open", "PATTERN", None, None), (5, "raw", "2 4", None, None), (4, "end", "PATTERN", None, None),
        (4, "kv", "COLOR", "1 2 3", "style"),
        (4, "kv", "COLORRANGE", q("#000000") + " " + q("#ffffff"), "style"),
        (3, "end", "STYLE", None, None),
        (3, "open", "LABEL", None, None), (4, "kv", "SIZE", repr(n), "label"), (3, "end", "LABEL", None, None),
        (3, "kv", "TEMPLATE", q("t.html"), "class"),
        (2, "end", "CLASS", None, None),
        (1, "end", "LAYER", None, None),
        (1, "open", "LAYER", None, None),
        (2, "open", "CONNECTIONOPTIONS", None, None), (3, "kvq", q("flatten"), q("YES"), "co"), (2, "end", "CONNECTIONOPTIONS", None, None),
        (2, "kv", "STATUS", "ON", "layer2"),
        (1, "end", "LAYER", None, None),
        (1, "kv", "FONTSET", q(s), "map"),
        (0, "end", "MAP", None, None),
    ]

# longest simple keyword per object (key-value blocks: the quoted key)
LONGEST = {"scalebar": 9, "map": 7, "web": 9, "md": 11, "symbol": 4, "layer": 10, "class": 8, "style": 10, "label": 4, "co": 9, "layer2": 6}


def layout(s, n, indent, spacer, Q, end_comment, align):
    """the statement: every opener / keyword / END on its own line at depth x indent copies of spacer ..."""
    out = []
    unit = spacer * indent
    I = indent if indent >= 1 else 1
    for depth, kind, key, val, obj in spec(s, n, Q):
        ws = unit * depth
        if kind == "open" or kind == "raw":
            out.append(ws + key)
        elif kind == "end":
            out.append(ws + "END" + ((" # " + key) if end_comment else ""))
        elif kind == "cfg":
            out.append(ws + key + " " + val)
        else:
            if align:
                col = (LONGEST[obj] // I + 1) * I          # first multiple of indent strictly past the longest simple keyword
                out.append(ws + key + " " * (col - len(key)) + val)
            else:
                out.append(ws + key + " " + val)
    return out
'''

LAYOUT = '''
s = {S}
spacer = "\\t" if tab else " "
Q = "'" if sq else '"'
pp = PrettyPrinter(indent=indent, spacer=spacer, quote=Q, newlinechar=NL, end_comment=EC, align_values=AL)
pp.validator = _VALIDATOR
lines = pp._format(doc(s, n))
return lines == layout(s, n, indent, spacer, Q, EC, AL)
'''

JOIN = '''
# final text == newlinechar.join(lines); same dict and options -> same text (determinism)
s = {S}
nl = "\\n" if nli == 0 else ("\\r\\n" if nli == 1 else " ")
pp = PrettyPrinter(indent=2, newlinechar=nl, end_comment=ec)
pp.validator = _VALIDATOR
def small():
    m = D("map"); m["name"] = s + "\\nsecond line of a multi-line string"      # a line break *inside* a value is content, not layout
    w = D("web"); w["imagepath"] = s
    m["web"] = w
    return m
exp = ["MAP", '  NAME "' + s + '\\nsecond line of a multi-line string"', "  WEB", '    IMAGEPATH "' + s + '"', "  END" + (" # WEB" if ec else ""), "END" + (" # MAP" if ec else "")]
text = pp.pprint(small())
text2 = pp.pprint([small(), small()])
return text == nl.join(exp) and text2 == nl.join(exp + exp) and pp.pprint(small()) == text
'''

INFO = {
    "explanation": "C16: the real PrettyPrinter (_format, process_key_dict, process_config_dict, process_repeated_list, process_projection, "
                   "format_pair_list, format_repeated_pair_list, whitespace, add_end_line, __format_line, compute_max_key_length, "
                   "compute_aligned_max_indent, pprint) on a document covering every block kind with symbolic leaves under symbolic options, "
                   "line list compared with a layout written from the statement; the alignment arithmetic additionally as an SMT lemma from the AST.",
    "files": ["mappyfile/pprint.py", "mappyfile/utils.py"],
    "functions": ["mappyfile.pprint.PrettyPrinter.*"],
    "bounds": {"indent": "0..8", "spacer": "' ' or tab", "quote": "' or \"", "newlinechar": "LF, CRLF, space", "string_leaf": "2 symbolic code points",
               "number_leaf": "symbolic choice between two values (0, 7)", "align_lemma": "key length <= 1023, indent 0..64"},
    "outside": ["multi-line string values (excepted by the statement)", "comment lines (C14)", "documents other than the block-kind cover (layout code does not branch on content beyond block kind)"],
    "assumptions": [],
    "stubs": [],
}

NUMS = [0, 7, -3, 2.5]


def layout_obs(prefix, tier):
    obs = []
    cs = chars("c", 2)
    params = cs + [("ni", "int"), ("indent", "int"), ("tab", "bool"), ("sq", "bool")]
    indents = (0, 1, 4) if tier == "quick" else range(9)
    nls = {0: "\\n", 1: "\\r\\n", 2: " "}
    for ind in indents:
        for al in (0, 1):
            for ec in (0, 1):
                for tab in (0, 1):
                    for sq in (0, 1):
                        # option values are enumerated by the generator (each extra symbolic option multiplied the executor's time by ~5);
                        # the leaves stay symbolic.  The line list does not depend on newlinechar (final join: C16-JOIN; comments: C14).
                        pre = conj([f"okc({n})" for n, _ in cs] + [f"(ni >= 0) & (ni < 2)", f"indent == {ind}",
                                                                   "tab" if tab else "not tab", "sq" if sq else "not sq"])
                        body = "n = 0 if ni == 0 else (7 if ni == 1 else (-3 if ni == 2 else 2.5))\n" + LAYOUT.format(S=chr_expr("c", 2))
                        src = PRELUDE + f"NL = '\\n'\nEC = {bool(ec)}\nAL = {bool(al)}\n" + harness("h", params, pre, body)
                        obs.append(Ob(name=f"{prefix}/indent{ind}.align{al}.ec{ec}.tab{tab}.sq{sq}", source=src, pct=600, timeout=700,
                                      meta={"desc": f"full line list of the block-kind cover document, indent={ind}, align_values={bool(al)}, end_comment={bool(ec)}, "
                                                    f"spacer={'tab' if tab else 'space'}, quote={'single' if sq else 'double'}; leaves symbolic; vs statement layout",
                                            "bounds": {"indent": ind}, "functions": ["PrettyPrinter._format"]}))
    src = PRELUDE + harness("h", cs + [("nli", "int"), ("ec", "bool")], conj([f"okc({n})" for n, _ in cs] + ["(nli >= 0) & (nli < 3)"]), JOIN.format(S=chr_expr("c", 2)))
    obs.append(Ob(name=f"{prefix.split('-')[0]}-JOIN", source=src, pct=300, timeout=400,
                  meta={"desc": "pprint == newlinechar.join(lines) for one root and for a list of roots; repeated call gives the same text", "functions": ["PrettyPrinter.pprint"]}))
    return obs


def obligations(tier, seed):
    obs = layout_obs("C16-LAYOUT", tier)
    obs.append(Ob(name="C16-ALIGN", kind="z3", z3_call=("engine.arith", "align_query", {"amax": 1023, "kmax": 64}), timeout=600,
                  meta={"desc": "compute_aligned_max_indent (AST -> SMT, IEEE double division, truncation): first multiple of max(1,indent) > key length",
                        "bounds": {"key_length": "0..1023", "indent": "0..64"}, "functions": ["PrettyPrinter.compute_aligned_max_indent"]}))
    return obs
