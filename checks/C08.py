"""C08 — recorded positions and validation error locations are exact.

C08-POS  template-symbolic pipeline with symbolic token *positions*: the real scanner runs on the skeleton, then the (line,
         column) of the tokens of interest are replaced by free symbolic integers; after the real parse + transform with
         include_position=True every object / keyword must carry exactly the position of its keyword token and value
         positions in source order (object blocks, simple and multi-valued attributes, repeated keys, CONFIG, PROJECTION,
         key-value blocks, POINTS x3, PATTERN, root-level lists).
C08-LOC  error -> position lookup: decided in C07 (C07-NUM / C07-LIST / C07-DEEP assert the reported line/column of every
         message: the offending keyword's, or the enclosing block opener's for object-level errors); re-run here on the
         nested-document family.
The clause "lark's line counter assigns the right line/column to each token for tabs / CRLF / multi-line strings" is outside
(third-party scanner internals that cannot be executed symbolically); see DESIGN §5.
"""
from engine.core import Ob, harness, conj
from checks.tsp_common import PRELUDE
from checks import C07

TEXT = '''MAP
  NAME "x"
  EXTENT 1 2 3 4
  CONFIG "A" "b"
  CONFIG "C" "d"
  PROJECTION
    "init=epsg:4326"
  END
  WEB
    METADATA
      "k" "v"
    END
  END
  LAYER
    PROCESSING "a=1"
    PROCESSING "b=2"
    FEATURE
      POINTS 1 1 END
      POINTS 2 2 END
      POINTS 5 5 END
    END
    CLASS
      STYLE
        PATTERN 1 2 END
        OFFSET [a] 2
        WIDTH 1
        WIDTH 7
      END
    END
  END
END
CLASS
  NAME "second root"
END'''

# tokens of interest: (name, token text, occurrence)
TOKS = [("map", "MAP", 0), ("name", "NAME", 0), ("namev", '"x"', 0), ("extent", "EXTENT", 0), ("e1", "1", 0), ("e2", "2", 0), ("e3", "3", 0), ("e4", "4", 0),
        ("cfg1", "CONFIG", 0), ("cfg1k", '"A"', 0), ("cfg1v", '"b"', 0), ("cfg2", "CONFIG", 1), ("proj", "PROJECTION", 0), ("projv", '"init=epsg:4326"', 0),
        ("web", "WEB", 0), ("md", "METADATA", 0), ("mdk", '"k"', 0), ("mdv", '"v"', 0), ("layer", "LAYER", 0), ("pr1", "PROCESSING", 0), ("pr1v", '"a=1"', 0),
        ("pr2", "PROCESSING", 1), ("pr2v", '"b=2"', 0), ("feature", "FEATURE", 0), ("pt1", "POINTS", 0), ("pt2", "POINTS", 1), ("pt3", "POINTS", 2), ("cls", "CLASS", 0), ("style", "STYLE", 0),
        ("pattern", "PATTERN", 0), ("offset", "OFFSET", 0), ("offa", "a", 0), ("w1", "WIDTH", 0), ("w2", "WIDTH", 1), ("w2v", "7", 0), ("cls2", "CLASS", 1), ("name2", "NAME", 1)]

BODY = '''
pos = {POS}
ds = MP.transform(PIPE.parse(TEXT, None, pos))
d = ds[0]
p = d["__position__"]
def at(x, l, c):
    return x["line"] == l and x["column"] == c
ok = at(p, l_map, c_map)
ok = ok and at(p["name"], l_name, c_name) and p["name"]["values"] == [(l_namev, c_namev)]
ok = ok and at(p["extent"], l_extent, c_extent) and p["extent"]["values"] == [(l_e1, c_e1), (l_e2, c_e2), (l_e3, c_e3), (l_e4, c_e4)]
ok = ok and at(p["config"]["a"], l_cfg1, c_cfg1) and p["config"]["a"]["values"] == [(l_cfg1k, c_cfg1k), (l_cfg1v, c_cfg1v)] and at(p["config"]["c"], l_cfg2, c_cfg2)
ok = ok and at(p["projection"], l_proj, c_proj) and p["projection"]["values"] == [(l_projv, c_projv)]
ok = ok and at(d["web"]["__position__"], l_web, c_web)
mp = d["web"]["metadata"]["__position__"]
ok = ok and at(mp, l_md, c_md) and mp["values"] == [(l_mdk, c_mdk), (l_mdv, c_mdv)]
lp = d["layers"][0]["__position__"]
ok = ok and at(lp, l_layer, c_layer) and at(lp["processing"][0], l_pr1, c_pr1) and at(lp["processing"][1], l_pr2, c_pr2)
ok = ok and lp["processing"][0]["values"] == [(l_pr1v, c_pr1v)] and lp["processing"][1]["values"] == [(l_pr2v, c_pr2v)]
fp = d["layers"][0]["features"][0]["__position__"]
ok = ok and at(fp, l_feature, c_feature) and at(fp["points"][0], l_pt1, c_pt1) and at(fp["points"][1], l_pt2, c_pt2) and len(fp["points"]) == 3 and at(fp["points"][2], l_pt3, c_pt3)
cp = d["layers"][0]["classes"][0]
ok = ok and at(cp["__position__"], l_cls, c_cls)
sp = cp["styles"][0]["__position__"]
ok = ok and at(sp, l_style, c_style) and at(sp["pattern"], l_pattern, c_pattern) and at(sp["offset"], l_offset, c_offset) and sp["offset"]["values"][0] == (l_offa, c_offa)
# a keyword given twice keeps its last value; the recorded position is that occurrence's
ok = ok and cp["styles"][0]["width"] == 7 and at(sp["width"], l_w2, c_w2) and sp["width"]["values"] == [(l_w2v, c_w2v)]
p2 = ds[1]["__position__"]
ok = ok and at(p2, l_cls2, c_cls2) and at(p2["name"], l_name2, c_name2)
# nothing but positions differs from a plain load
return ok and tsp.plain(ds) == PLAIN
'''

INFO = {
    "explanation": "C08: the real transformer (create_position_dict, composite hoisting, config / points / repeated-key accumulation, key-value blocks) runs "
                   "under CrossHair on a real parse of the skeleton whose token positions are free symbolic integers; every recorded position must be the "
                   "position of the right token. Error locations are the position assertions inside C07's obligations (re-run here for the nested family).",
    "files": ["mappyfile/transformer.py", "mappyfile/validator.py", "mappyfile/parser.py"],
    "functions": ["mappyfile.transformer.MapfileTransformer.create_position_dict", "mappyfile.transformer.MapfileTransformer.composite",
                  "mappyfile.transformer.MapfileTransformer._process_composite_config", "mappyfile.transformer.MapfileTransformer._process_composite_points",
                  "mappyfile.transformer.MapfileTransformer.process_value_pairs", "mappyfile.transformer.MapfileTransformer.attr", "mappyfile.validator.Validator.create_message"],
    "bounds": {"tokens_with_symbolic_position": len(TOKS), "positions": "free integers (line, column) per token, no ordering assumed"},
    "outside": ["lark's LineCounter (tabs, CRLF, multi-line strings): third-party scanner internals, trusted", "CLI message formatting (C20)"],
    "assumptions": [],
    "stubs": ["hole lexer (positions)"],
}


def _indices():
    """token indices (as delivered to the parser by the contextual lexer) of the tokens of interest"""
    import logging
    logging.disable(logging.CRITICAL)
    from engine import tsp
    P = tsp.pipe()
    seen = []

    class Rec:
        def __init__(self, real):
            self.real = real

        def lex(self, ls, ps):
            for t in self.real.lex(ls, ps):
                seen.append(str(t))
                yield t
    P.front.lexer = Rec(P.real)
    try:
        P.P.parse(TEXT)
    finally:
        P.front.lexer = P.real
    out = {}
    for name, text, occ in TOKS:
        idx = [i for i, s in enumerate(seen) if s == text]
        out[name] = idx[occ]
    return out


def obligations(tier, seed):
    obs = []
    idx = _indices()
    params = []
    for name, _, _ in TOKS:
        params += [(f"l_{name}", "int"), (f"c_{name}", "int")]
    pos = "{" + ", ".join(f"{idx[name]}: (l_{name}, c_{name})" for name, _, _ in TOKS) + "}"
    defs = f"\nTEXT = {TEXT!r}\nPLAIN = tsp.plain(mappyfile.loads(TEXT))\n"
    src = PRELUDE + defs + harness("h", params, "", BODY.format(POS=pos))
    obs.append(Ob(name="C08-POS/cover", source=src, pct=900, timeout=1000,
                  meta={"desc": f"{len(TOKS)} tokens with free symbolic (line, column): every __position__ entry is the position of its keyword / value token; content equals a plain load",
                        "functions": ["MapfileTransformer.create_position_dict", "MapfileTransformer.composite"], "stubs": ["hole lexer (positions)"]}))
    # positions refer to the text as given: the INCLUDE pre-pass (run by default) must leave INCLUDE-free text unchanged, whatever
    # characters it contains (form feeds between tokens, NEL / U+2028 inside strings ...)
    from checks import C15
    for o in C15.obligations(tier, seed):
        if o.name.startswith("C15-IDENT/"):
            o.name = o.name.replace("C15-IDENT/", "C08-PRE/identity.")
            obs.append(o)
    # error locations: the nested-document family of C07 (asserts line/column of every message)
    for o in C07.obligations(tier, seed):
        if o.name.startswith("C07-DEEP/") or o.name.startswith("C07-LIST/scalebar") or o.name.startswith("C07-NUM/scalebar"):
            o.name = o.name.replace("C07-", "C08-LOC/")
            obs.append(o)
    return obs
