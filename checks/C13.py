"""C13 — position and comment bookkeeping is transparent.

C13-REL  per skeleton with symbolic string holes and symbolic comment texts, the four real parser / transformer configurations
         (include_position x include_comments; the comment configurations use the real propagate_positions parser, lexer
         callbacks, _assign_comments and CommentsTransformer) must agree once hidden keys are stripped: same keys, order, values
         and value types; no printed line contains position data; the bookkeeping-on dictionaries print, apart from comment
         text, exactly the lines of the plain dictionary.
"""
from engine.core import Ob, harness, chars, chr_expr, conj
from checks.tsp_common import PRELUDE, Hole
from checks import C14

SK = {}
SK["comments"] = (C14.TEXT.replace('"k2" "v2"', """"'k2'" "v2"\n      '"k3"' 'v3'""").replace('NAME "x"', 'NAME "H01"').replace('"k1" "v1"', '"k1" "H02"').replace('NAME "c"', "NAME 'H03'"),
                  [Hole("H01"), Hole("H02"), Hole("H03", quote="'")], ["CC", "CF", "CH", "CK"])
SK["blocks"] = ('''MAP
  NAME "H01"
  EXTENT 1 2 3 4 # CA
  CONFIG "A" "H02"
  PROJECTION
    "init=epsg:4326" # CB
  END
  SYMBOL
    NAME "s"
    POINTS 1 1 2 2 END
  END
  LAYER
    PROCESSING "H03"
    PROCESSING "b=2"
    FEATURE
      POINTS 1 1 END
      POINTS 2 2 END
    END
    CLASS
      EXPRESSION ( [a] = "H04" )
      STYLE
        PATTERN 1 2 END
        COLOR 1 2 3
      END
    END
  END
END''', [Hole("H01"), Hole("H02"), Hole("H03"), Hole("H04")], ["CA", "CB"])

BODY = '''
PPA = ALIGNED
def V(nm):
    if nm in v:
        return v[nm]
    return "/* CH */" if nm == "CH" else "# " + nm
{BUILD}
holes = {HOLES}
sub = {SUB}
d0 = M.transform(PIPE.parse(TEXT, holes))
dp = MP.transform(PIPE.parse(TEXT, holes))
dc = MC.transform(PIPEC.parse(TEXT, holes, None, sub))
dpc = MPC.transform(PIPEC.parse(TEXT, holes, None, sub))
p0 = tsp.plain(d0)
if tsp.plain(dp) != p0 or tsp.plain(dc) != p0 or tsp.plain(dpc) != p0:
    return False                                   # bookkeeping only adds hidden keys
l0 = PP._format(d0)
if PP._format(dp) != l0:
    return False                                   # positions are never printed
lc = PP._format(dpc)
if PP._format(dc) != lc:
    return False
# apart from comment text the lines are those of the plain dictionary: the witness run fixed *where* comments sit
# (line structure only); with symbolic texts the comment-carrying lines must be exactly plain line + comment
v = {VMAP}
return lc == {LCEXP}
'''

ALIGN_BODY = '''
PPA = ALIGNED
{BUILD}
holes = {HOLES}
sub = {SUB}
d0 = M.transform(PIPE.parse(TEXT, holes))
dpc = MPC.transform(PIPEC.parse(TEXT, holes, None, sub))
la = PPA._format(d0)
# hidden keys do not influence the layout (value alignment) of what is printed
return PPA._format(tsp.plain_dict(dpc)) == la and PPA._format(d0) == la
'''

INFO = {
    "explanation": "C13: four real parser/transformer configurations on one skeleton with symbolic string contents and comment texts agree after stripping "
                   "hidden keys; prints agree apart from comment text.",
    "files": ["mappyfile/parser.py", "mappyfile/transformer.py", "mappyfile/pprint.py", "mappyfile/utils.py"],
    "functions": ["mappyfile.parser.Parser._create_lalr_parser (propagate_positions, lexer callbacks)", "mappyfile.parser.Parser._assign_comments",
                  "mappyfile.transformer.CommentsTransformer.*", "mappyfile.transformer.MapfileTransformer.composite", "mappyfile.transformer.MapfileToDict.transform",
                  "mappyfile.pprint.PrettyPrinter._format"],
    "bounds": {"skeletons": 2, "string_holes": "2 code points", "comment_text": "'# ' + 2 symbolic code points 33..0x167F (no white space)"},
    "outside": ["through open/load: same core call (C20-PLUMB)", "corpus files"],
    "assumptions": ["hole substitution justified by C05's scanner lemmas"],
    "stubs": ["hole lexer", "comment substitution"],
}


def _structure(text):
    """expression for the expected comment-config line list in terms of the plain lines l0[i] and the comment values v[..],
    from the line structure of a concrete witness run (which line carries which comment; no content is taken from it)"""
    import logging, re
    logging.disable(logging.CRITICAL)
    import mappyfile
    from mappyfile.pprint import PrettyPrinter
    pp = PrettyPrinter(indent=4, quote='"')
    l0 = pp._format(mappyfile.loads(text))
    lc = pp._format(mappyfile.loads(text, include_comments=True, include_position=True))
    rx = re.compile(r"(# (C[A-Z])|/\* (C[A-Z]) \*/)$")
    out, i = [], 0
    for el in lc:
        pieces = []
        for piece in el.split("\n"):
            m = rx.search(piece)
            if m and piece.strip() == m.group(0):
                nm = m.group(2) or m.group(3)
                pieces.append(f"{piece[:len(piece) - len(piece.lstrip())]!r} + V({nm!r})")
            elif m:
                nm = m.group(2) or m.group(3)
                assert piece[: m.start() - 1] == l0[i], (piece, l0[i])
                pieces.append(f"l0[{i}] + ' ' + V({nm!r})")
                i += 1
            else:
                assert piece == l0[i], (piece, l0[i])
                pieces.append(f"l0[{i}]")
                i += 1
        out.append(" + '\\n' + ".join(pieces))
    assert i == len(l0)
    return "[" + ", ".join(out) + "]"


def obligations(tier, seed):
    obs = []
    L = 2
    for name, (text, holes, coms) in SK.items():
        params, pre, build, sub = [], [], [], []
        for h in holes:
            h.L = L
            params += h.params()
            pre += h.pre()
            build.append(h.build())
        for c in coms:
            cs = chars(c.lower() + "_", 2)
            params += cs
            pre += [f"({n} >= 33) & ({n} < 0x1680) & ({n} != 42) & ({n} != 0x85) & ({n} != 0xa0)" for n, _ in cs]   # no white space: the parser strips comment text
            if c == "CH":
                build.append(f"v_{c} = '/* ' + {chr_expr(c.lower() + '_', 2)} + ' */'")
                sub.append(f"'/* CH */': v_{c}")
            else:
                build.append(f"v_{c} = '# ' + {chr_expr(c.lower() + '_', 2)}")
                sub.append(f"'# {c}': v_{c}")
        holes1 = "{" + ", ".join(f"{h.src_token()!r}: {h.src_value()}" for h in holes) + "}"
        defs = f"\nTEXT = {text!r}\nALIGNED = tsp.printer(tsp.ALL_TYPES, indent=2, align_values=True)\n"
        vmap = "{" + ", ".join(f"{c!r}: v_{c}" for c in coms) + "}"
        try:
            lcexp = _structure(text)
            src = PRELUDE + defs + harness("h", params, conj(pre), BODY.format(BUILD="\n".join(build), HOLES=holes1, SUB="{" + ", ".join(sub) + "}", VMAP=vmap, LCEXP=lcexp))
        except Exception:
            # the witness itself fails with bookkeeping on: the obligation is that call
            from checks.tsp_common import failing_witness_source
            src = failing_witness_source(text, {"include_comments": True, "include_position": True})
        asrc = PRELUDE + defs + harness("h", params, conj(pre), ALIGN_BODY.format(BUILD="\n".join(build), HOLES=holes1, SUB="{" + ", ".join(sub) + "}"))
        obs.append(Ob(name=f"C13-ALIGN/{name}", source=asrc, pct=900, timeout=1000,
                      meta={"desc": f"skeleton {name}: printed with align_values=True, the bookkeeping-on dictionary (positions kept, comments removed) gives the plain dictionary's lines",
                            "functions": ["PrettyPrinter.compute_max_key_length", "PrettyPrinter._format"], "stubs": ["hole lexer", "comment substitution"]}))
        obs.append(Ob(name=f"C13-REL/{name}", source=src, pct=900, timeout=1000,
                      meta={"desc": f"skeleton {name}: plain / position / comments / both agree modulo hidden keys; prints agree modulo comment text",
                            "functions": ["Parser.parse", "CommentsTransformer", "MapfileTransformer", "PrettyPrinter._format"], "stubs": ["hole lexer", "comment substitution"]}))
    return obs
