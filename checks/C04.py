"""C04 — formatting is a deterministic normal form (idempotent).

C04-FIX   for each skeleton x formatter option set: the witness text is formatted once (real dumps); on the *formatted* text, with
          symbolic hole values, parse -> print gives exactly the same lines, and a second parse of those lines the same content
          (template-symbolic pipeline; same machinery as C01-RT, whose harness also asserts the second pass).
C04-ESC   escape_quotes(escape_quotes(x)) == escape_quotes(x) and the enum path's upper() is a projection, for symbolic strings.
C04-DET   two printer runs on the same symbolic dict and options give identical lines (C16-JOIN asserts it on pprint).
"""
from engine.core import Ob, HEADER, harness, chars, chr_expr, conj
from checks.tsp_common import Hole, rt_source
from checks import C01

OPTSETS = {
    "default": {},
    "i0.single": {"indent": 0, "quote": "'"},
    "tab.endc": {"indent": 1, "spacer": "\t", "end_comment": True},
    "i2.align": {"indent": 2, "align_values": True},
    "i8.single.align.endc": {"indent": 8, "quote": "'", "align_values": True, "end_comment": True},
    "i3": {"indent": 3, "newlinechar": "\r\n"},
}

ESC = HEADER + '''
from mappyfile.quoter import Quoter
QD, QS = Quoter('"'), Quoter("'")


def okc(c):
    return (c >= 32) & (c < 0x3000)
'''

ESC_BODY = '''
s = {S}
for q in (QD, QS):
    once = q.escape_quotes(s)
    if q.escape_quotes(once) != once:
        return False
    st = q.standardise_quotes(s)
    if q.standardise_quotes(st) != st:
        return False
return True
'''

ESC_K = '''
# every string over " ' backslash a (selectors realised by if-chains, so the quoting code - also if it uses `re` - runs on concrete text)
def ch(c):
    return '"' if c == 0 else ("'" if c == 1 else (chr(92) if c == 2 else "a"))
s = {S}
for q in (QD, QS):
    once = q.escape_quotes(s)
    if q.escape_quotes(once) != once:
        return False
    st = q.standardise_quotes(s)
    if q.standardise_quotes(st) != st:
        return False
return True
'''

INFO = {
    "explanation": "C04: idempotence of formatting through the template-symbolic pipeline on already-formatted skeletons under several option sets, "
                   "plus the quoting projections on symbolic strings.",
    "files": ["mappyfile/pprint.py", "mappyfile/transformer.py", "mappyfile/quoter.py", "mappyfile/ordereddict.py", "mappyfile/parser.py"],
    "functions": ["mappyfile.pprint.PrettyPrinter._format", "mappyfile.transformer.MapfileTransformer.*", "mappyfile.quoter.Quoter.escape_quotes", "mappyfile.quoter.Quoter.standardise_quotes"],
    "bounds": {"skeletons": "layer, map, expr (C01's structural skeletons)", "option_sets": "quick 4 / thorough 6", "string_holes": "2 code points", "esc_len": "quick 5 / thorough 7 code points, any of 32..0x2FFF incl. quotes and backslash"},
    "outside": ["byte identity over whole corpus files", "option sets beyond the listed ones (the layout under every option combination is C16's)"],
    "assumptions": ["hole substitution justified by C05's scanner lemmas"],
    "stubs": ["hole lexer"],
}


def obligations(tier, seed):
    obs = []
    names = list(OPTSETS)[:4] if tier == "quick" else list(OPTSETS)
    for sk in ("layer", "map", "expr"):
        text, holes = C01.SK[sk]
        for on in names:
            hs = [Hole(h.marker, h.kind, 2, h.quote, h.not_words) for h in holes]
            src, params, pre = rt_source(text, hs, idem=True, ppopts=OPTSETS[on])
            obs.append(Ob(name=f"C04-FIX/{sk}.{on}", source=src, pct=900, timeout=1000,
                          meta={"desc": f"skeleton {sk}, options {OPTSETS[on]}: print(parse(formatted)) == formatted, line for line; second parse same content",
                                "functions": ["PrettyPrinter._format", "Parser.parse", "MapfileTransformer"], "stubs": ["hole lexer"]}))
    # the expression normal form is a fixed point: an operand that already is one parenthesised group is not wrapped again, for every
    # balanced operand over ( ) a " ' backslash (the group lemma of C10, whose harness asserts exactly that)
    from checks import C10
    for o in C10.obligations(tier, seed):
        if o.name.startswith("C10-BUILD/expression.") and o.name.endswith(".K6"):
            o.name = o.name.replace("C10-BUILD/", "C04-GROUP/")
            obs.append(o)
    for L in ((2, 4, 5) if tier == "quick" else (2, 3, 4, 5, 6, 7)):
        cs = chars("c", L)
        src = ESC + harness("h", cs, conj([f"okc({n})" for n, _ in cs]), ESC_BODY.format(S=chr_expr("c", L)))
        obs.append(Ob(name=f"C04-ESC/L{L}", source=src, pct=600, timeout=700,
                      meta={"desc": f"escape_quotes / standardise_quotes are idempotent on every string of {L} code points (quotes and backslashes included)", "functions": ["Quoter.escape_quotes", "Quoter.standardise_quotes"]}))
    for L in ((3, 5, 6) if tier == "quick" else (3, 4, 5, 6, 7)):
        cs = chars("k", L)
        src = ESC + harness("h", cs, conj([f"({n} >= 0) & ({n} < 4)" for n, _ in cs]), ESC_K.format(S=" + ".join(f"ch(k{i})" for i in range(L))))
        obs.append(Ob(name=f"C04-ESC/K4.L{L}", source=src, pct=900, timeout=1000,
                      meta={"desc": f"escape_quotes / standardise_quotes idempotent on all {4 ** L} strings of length {L} over \" ' backslash a", "functions": ["Quoter.escape_quotes", "Quoter.standardise_quotes"]}))
    return obs
