"""Reference oracles written from the property statements / the JSON-Schema Draft-04 text.
Pure Python, no mappyfile imports; executed next to the implementation under CrossHair."""
from __future__ import annotations


def is_num(v):
    return isinstance(v, (int, float)) and not isinstance(v, bool)


def ref_ok(s, v) -> bool:
    """Draft-04 subset: type, enum, minimum/maximum (+ boolean exclusive*), min/maxItems, items, min/maxLength,
    oneOf/anyOf/allOf.  `pattern` is evaluated only on concrete strings through the callback in s['__pat__'] if given.
    A numeric `exclusiveMinimum` without `minimum` is not a Draft-04 keyword and is ignored, as the published schemas are
    Draft-04 documents."""
    if "allOf" in s:
        for a in s["allOf"]:
            if not ref_ok(a, v):
                return False
    if "anyOf" in s:
        if not any(ref_ok(a, v) for a in s["anyOf"]):
            return False
    if "oneOf" in s:
        n = 0
        for a in s["oneOf"]:
            if ref_ok(a, v):
                n += 1
        if n != 1:
            return False
    if "enum" in s:
        found = False
        for e in s["enum"]:
            if isinstance(e, bool) or isinstance(v, bool):
                if isinstance(e, bool) and isinstance(v, bool) and e == v:
                    found = True
            elif isinstance(e, str) != isinstance(v, str):
                pass
            elif isinstance(e, (list, dict)) or isinstance(v, (list, dict)):
                pass
            elif e == v:
                found = True
        if not found:
            return False
    t = s.get("type")
    if t is not None:
        if t == "string" and not isinstance(v, str):
            return False
        if t == "number" and not is_num(v):
            return False
        if t == "integer" and not (isinstance(v, int) and not isinstance(v, bool)):
            return False
        if t == "boolean" and not isinstance(v, bool):
            return False
        if t == "array" and not isinstance(v, list):
            return False
        if t == "object" and not isinstance(v, dict):
            return False
    if is_num(v):
        if "minimum" in s:
            if s.get("exclusiveMinimum", False):
                if v <= s["minimum"]:
                    return False
            elif v < s["minimum"]:
                return False
        if "maximum" in s:
            if s.get("exclusiveMaximum", False):
                if v >= s["maximum"]:
                    return False
            elif v > s["maximum"]:
                return False
    if isinstance(v, str):
        if "minLength" in s and len(v) < s["minLength"]:
            return False
        if "maxLength" in s and len(v) > s["maxLength"]:
            return False
        if "pattern" in s:
            import re
            if not re.search(s["pattern"], v):
                return False
    if isinstance(v, list):
        if "minItems" in s and len(v) < s["minItems"]:
            return False
        if "maxItems" in s and len(v) > s["maxItems"]:
            return False
        items = s.get("items")
        if isinstance(items, dict):
            for x in v:
                if not ref_ok(items, x):
                    return False
        elif isinstance(items, list):
            for i, x in enumerate(v):
                if i < len(items) and not ref_ok(items[i], x):
                    return False
    return True
