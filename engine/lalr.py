"""E-LALR: bit-blasted bounded model checking of lark's real LALR(1) parse table for mappyfile's grammar (DESIGN §2.4).

Everything is read from the live objects on every run: the parse table (states, shift / reduce / goto, rules), the
terminal list, ``parser.SYMBOL_ATTRIBUTES`` and the shape of the re-tagging loop in ``Parser.parse`` (pattern-matched on the
AST; an unknown shape aborts with HARNESS-ERROR).

Observation used by the encoding (and checked by validation runs against the real parser): when ``Parser.parse`` inspects
token i, the previous token has just been shifted, so ``value_stack[-1]`` *is* token i-1 (the stack is empty only for i = 0).
The re-tagging loop is therefore a rewriting of token types that depends on the previous token's text only.
"""
from __future__ import annotations

import ast
import logging
import os
import time

logging.disable(logging.CRITICAL)

REPO = os.environ.get("VF_REPO", "/repo")
W = 12
OTHER, T_SYMBOL, T_NAME, T_SYMATTR = 0, 1, 2, 3      # text classes of a token


class Model:
    def __init__(self):
        import z3
        from mappyfile.parser import Parser, SYMBOL_ATTRIBUTES
        from lark.parsers.lalr_analysis import Shift
        self.z3 = z3
        self.P = Parser()
        self.symattrs = set(SYMBOL_ATTRIBUTES)
        pt = self.P.lalr.parser.parser._parse_table
        self.states = pt.states
        self.START = pt.start_states["start"]
        self.ENDST = pt.end_states["start"]
        allsyms = sorted({a for v in self.states.values() for a in v.keys()})
        self.rules, self.rid = [], {}
        for v in self.states.values():
            for a, (act, arg) in v.items():
                if act is not Shift and arg not in self.rid:
                    self.rid[arg] = len(self.rules)
                    self.rules.append(arg)
        nt = {str(r.origin.name) for r in self.rules}
        self.terms = [s for s in allsyms if s not in nt]
        if "UNQUOTED_STRING_VALUE" not in self.terms:
            self.terms.append("UNQUOTED_STRING_VALUE")
        self.terms.append("$PAD")
        self.tid = {t: i for i, t in enumerate(self.terms)}
        self.ntid = {n: i for i, n in enumerate(sorted(nt))}
        self.act, self.goto = {}, {}
        for s, v in self.states.items():
            for a, (act, arg) in v.items():
                if act is Shift:
                    if a in self.ntid:
                        self.goto[(s, self.ntid[a])] = arg
                    else:
                        self.act[(s, self.tid[a])] = 1 + arg
                else:
                    self.act[(s, self.tid[a])] = 1000 + self.rid[arg]
        self.rlen = [len(r.expansion) for r in self.rules]
        self.rlhs = [self.ntid[str(r.origin.name)] for r in self.rules]
        self.rule_names = [str(r.origin.name) for r in self.rules]
        self._check_loop_shape()

    # ---- the re-tagging loop --------------------------------------------------------------------------------------
    def _check_loop_shape(self):
        """pattern-match Parser.parse: the loop must re-tag UNQUOTED_STRING after 'SYMBOL' (unless in SYMBOL_ATTRIBUTES) and GRID
        after 'NAME' to UNQUOTED_STRING_VALUE, comparing the text of value_stack[-1]; anything else is an unknown shape"""
        src = open(os.path.join(REPO, "mappyfile", "parser.py")).read()
        tree = ast.parse(src)
        fn = [n for n in ast.walk(tree) if isinstance(n, ast.FunctionDef) and n.name == "parse"][0]
        text = ast.unparse(fn)
        need = ['"UNQUOTED_STRING"', '"SYMBOL"', "SYMBOL_ATTRIBUTES", '"GRID"', '"NAME"', '"UNQUOTED_STRING_VALUE"', "value_stack"]
        text_dq = text.replace("'", '"')
        missing = [n for n in need if n not in text_dq]
        if missing:
            raise RuntimeError(f"Parser.parse no longer has the expected re-tagging shape (missing {missing})")
        self.case_insensitive_prev = ".upper()" in text_dq.split("SYMBOL_ATTRIBUTES")[0].split("value_stack")[-1] or "previous.upper()" in text_dq
        self.guarded = ("if value_stack else" in text_dq) or ("if value_stack" in text_dq) or ("len(value_stack)" in text_dq)

    def text_class(self, tok):
        """text class of a concrete lark token (as the loop sees it)"""
        s = str(tok)
        u = s.upper() if self.case_insensitive_prev else s
        if u == "SYMBOL":
            return T_SYMBOL
        if u == "NAME":
            return T_NAME
        if str(tok.value).upper() in self.symattrs:
            return T_SYMATTR
        return OTHER

    def retag(self, ty, tc, prev_tc):
        """effective terminal of a token given its raw terminal name, text class and the previous token's text class"""
        if ty == "UNQUOTED_STRING" and prev_tc == T_SYMBOL and tc not in (T_NAME, T_SYMATTR):
            return "UNQUOTED_STRING_VALUE"
        if ty == "GRID" and prev_tc == T_NAME:
            return "UNQUOTED_STRING_VALUE"
        return ty

    # ---- concrete runs of the real parser ---------------------------------------------------------------------------
    def real_tokens(self, text):
        """(raw terminal, text class, text) of every token delivered to the parser for `text`, and whether the real parse succeeded"""
        P = self.P
        front = P.lalr.parser
        real = front.lexer
        seen = []
        model = self

        class Rec:
            def lex(self, ls, ps):
                for t in real.lex(ls, ps):
                    seen.append((t.type, model.text_class(t), str(t)))
                    yield t
        front.lexer = Rec()
        ok = True
        try:
            P.parse(text)
        except Exception as ex:
            ok = type(ex).__name__
        finally:
            front.lexer = real
        return seen, ok

    def run_concrete(self, types):
        """the model's automaton on a concrete list of effective terminal names: (accepted, rule-name trace)"""
        stack = [self.START]
        trace = []
        seq = list(types) + ["$END"]
        i = 0
        for _ in range(10000):
            la = seq[i]
            a = self.act.get((stack[-1], self.tid.get(la, -1)), 0)
            if a == 0:
                return False, trace
            if a < 1000:
                stack.append(a - 1)
                i += 1
                if i >= len(seq):
                    return False, trace
            else:
                r = a - 1000
                n = self.rlen[r]
                if n:
                    del stack[-n:]
                g = self.goto.get((stack[-1], self.rlhs[r]), None)
                trace.append(self.rule_names[r])
                if la == "$END" and g == self.ENDST:
                    return True, trace
                if g is None:
                    return False, trace
                stack.append(g)
        return False, trace

    def effective(self, toks):
        out, prev = [], None
        for ty, tc, _ in toks:
            out.append(self.retag(ty, tc, prev))
            prev = tc
        return out

    # ---- symbolic encoding --------------------------------------------------------------------------------------------
    def V(self, x):
        return self.z3.BitVecVal(x, W)

    def table(self, entries, default):
        z3, V = self.z3, self.V
        by0 = {}
        for k, v in entries.items():
            by0.setdefault(k[0], {}).setdefault(v, []).append(k[1])

        def f(x0, x1):
            body = V(default)
            for a0, byv in by0.items():
                inner = V(default)
                for v, a1s in byv.items():
                    inner = z3.If(z3.Or([x1 == a for a in a1s]), V(v), inner)
                body = z3.If(x0 == a0, inner, body)
            return body
        return f

    def lut(self, tab, x):
        z3, V = self.z3, self.V
        e = V(tab[-1])
        for i in range(len(tab) - 2, -1, -1):
            e = z3.If(x == i, V(tab[i]), e)
        return e

    def sel(self, lst, idx):
        z3 = self.z3
        e = lst[-1]
        for i in range(len(lst) - 2, -1, -1):
            e = z3.If(idx == i, lst[i], e)
        return e

    def bmc(self, toks, D, STEPS):
        """unroll the LALR driver over the (symbolic) effective-terminal cells `toks` ($PAD cells are skipped).
        Returns (solver, events, status list): status 0 running, 1 accepted, 2 error"""
        z3, V = self.z3, self.V
        S = z3.Then("simplify", "propagate-values", "solve-eqs", "bit-blast", "sat").solver()
        N = len(toks)
        END, PAD = self.tid["$END"], self.tid["$PAD"]
        ACT, GOTO = self.table(self.act, 0), self.table(self.goto, 0)
        stk = [[z3.BitVec("s_%d_%d" % (j, d), W) for d in range(D)] for j in range(STEPS + 1)]
        sp = [z3.BitVec("sp_%d" % j, W) for j in range(STEPS + 1)]
        pos = [z3.BitVec("pos_%d" % j, W) for j in range(STEPS + 1)]
        st = [z3.BitVec("st_%d" % j, W) for j in range(STEPS + 1)]
        S.add(stk[0][0] == self.START, sp[0] == 1, pos[0] == 0, st[0] == 0)
        events = []
        for j in range(STEPS):
            top = self.sel(stk[j], sp[j] - 1)
            la = z3.If(z3.UGE(pos[j], N), V(END), self.sel(toks, pos[j]))
            is_pad = la == PAD
            a = ACT(top, la)
            is_err = z3.And(a == 0, z3.Not(is_pad))
            is_shift = z3.And(a != 0, z3.ULT(a, 1000), z3.Not(is_pad))
            is_red = z3.And(z3.UGE(a, 1000), z3.Not(is_pad))
            r = a - 1000
            n = self.lut(self.rlen, r)
            lhs = self.lut(self.rlhs, r)
            under = self.sel(stk[j], sp[j] - 1 - n)
            g = GOTO(under, lhs)
            running = st[j] == 0
            nsp = z3.If(is_pad, sp[j], z3.If(is_shift, sp[j] + 1, sp[j] - n + 1))
            S.add(z3.Implies(z3.And(running, is_err), z3.And(st[j + 1] == 2, sp[j + 1] == sp[j], pos[j + 1] == pos[j])))
            S.add(z3.Implies(z3.Not(running), z3.And(st[j + 1] == st[j], sp[j + 1] == sp[j], pos[j + 1] == pos[j])))
            ok = z3.And(running, z3.Not(is_err))
            overflow = z3.Or(z3.UGT(nsp, D), z3.ULT(nsp, 1))
            S.add(z3.Implies(ok, z3.And(sp[j + 1] == nsp,
                                        pos[j + 1] == z3.If(z3.Or(is_shift, is_pad), pos[j] + 1, pos[j]),
                                        st[j + 1] == z3.If(overflow, V(3), z3.If(z3.And(is_red, la == END, g == self.ENDST), V(1), V(0))))))
            for d in range(D):
                newv = z3.If(is_pad, stk[j][d], z3.If(is_shift, z3.If(sp[j] == d, a - 1, stk[j][d]), z3.If(sp[j] - n == d, g, stk[j][d])))
                S.add(z3.Implies(ok, stk[j + 1][d] == newv))
            events.append(dict(j=j, la=la, a=a, is_shift=is_shift, is_red=is_red, r=r, running=running, sp=sp[j], pos=pos[j]))
        return S, events, st

    def count_reduces(self, events, rule_name, only_long=False):
        z3, V = self.z3, self.V
        ids = [i for i, nme in enumerate(self.rule_names) if nme == rule_name]
        total = V(0)
        for ev in events:
            hit = z3.And(ev["running"], ev["is_red"], z3.Or([ev["r"] == k for k in ids]))
            total = total + z3.If(hit, V(1), V(0))
        return total


_MODEL = None


def model():
    global _MODEL
    if _MODEL is None:
        _MODEL = Model()
    return _MODEL


# ---------------------------------------------------------------------------------------------------------------------
# translator validation
# ---------------------------------------------------------------------------------------------------------------------

def validate_model(M, texts):
    """the model's automaton + re-tagging must agree with the real Parser on accept / reject for every text"""
    bad = []
    for t in texts:
        toks, ok = M.real_tokens(t)
        if ok is not True and ok not in ("UnexpectedToken", "UnexpectedCharacters", "UnexpectedEOF", "UnexpectedInput"):
            bad.append((t, f"real parser raised {ok}"))
            continue
        if ok != True and ok == "UnexpectedCharacters":
            continue                                   # scanner-level rejection: no complete token stream to compare
        acc, _ = M.run_concrete(M.effective(toks))
        if acc != (ok is True):
            bad.append((t, f"model accepted={acc}, real={ok}"))
    return bad


def model_validation():
    """C19-MODEL: the model against the real parser on every single-slot document and on accept / reject texts"""
    from engine import slots as S
    t0 = time.time()
    M = model()
    texts = ['MAP NAME "x" END', 'SYMBOL BACKGROUNDCOLOR 1 2 3 END', 'STYLE symbol circle SIZE 2 END', 'QUERYMAP STYLE NORMAL COLOR 1 2 3 END',
             'LAYER NAME grid TYPE POINT END', 'GRID LABELFORMAT "DD" END', 'MAP NAME END', 'LAYER CLASS STYLE END END END', 'END', 'MAP', 'MAP END END',
             'CLASS EXPRESSION ( [a] = 1 AND [b] = 2 ) END', 'SYMBOL NAME "x" TYPE ELLIPSE POINTS 1 1 END END', 'LAYER NAME name END', 'STYLE SYMBOL name END',
             'STYLE SYMBOL 5 COLOR 1 2 3 END', 'CLASS SYMBOL foo NAME "x" END', 'LAYER METADATA a b END END', 'MAP SYMBOL NAME foo END END']
    M.P.expand_includes = False
    n = 0
    for s in S.simple_slots():
        for pos in (0, 1):
            inc = 'INCLUDE "c"\n'
            texts.append(f'{s["type"].upper()}\n{inc if pos else ""}{s["key"].upper()} {s["text"]}\n{"" if pos else inc}END')
            n += 1
    bad = validate_model(M, texts)
    M.P.expand_includes = True
    res = {"queries": len(texts), "solver_s": time.time() - t0, "extra": {"texts": len(texts)}}
    if bad:
        res.update(verdict="HARNESS-ERROR", detail=f"model disagrees with the real parser: {bad[:3]}")
    else:
        res.update(verdict="PROVED-IN-BOUND", detail=f"model == real parser on {len(texts)} texts", witness=texts[1])
    return res


# ---------------------------------------------------------------------------------------------------------------------
# C19-VOCAB: every schema keyword slot parses in first / middle / last position
# ---------------------------------------------------------------------------------------------------------------------

CONTEXT_SLOTS = ['INCLUDE "i1"', 'INCLUDE "i2"']


def slot_table(M, type_):
    """token sequences of every simple keyword slot of `type_`, lexed by the real scanner inside a body of that type"""
    from engine import slots as S
    out, problems = [], []
    for s in S.simple_slots():
        if s["type"] != type_:
            continue
        text = f'{type_.upper()}\nINCLUDE "ctx"\n{s["key"].upper()} {s["text"]}\nEND'
        P = M.P
        P.expand_includes = False
        toks, ok = M.real_tokens(text)
        P.expand_includes = True
        if ok is not True:
            problems.append((s, text, ok))
            continue
        body = toks[3:-1]                                  # without TYPE INCLUDE "ctx" ... END
        _, trace = M.run_concrete(M.effective(toks))
        _, base = M.run_concrete(M.effective(toks[:3] + toks[-1:]))
        out.append(dict(slot=s, toks=body, n_attr=trace.count("attr") - 1, n_comp=trace.count("composite") - 1, n_red=len(trace) - len(base) + 2,
                        depth=len(body) + 2, text=f'{s["key"].upper()} {s["text"]}'))
    return out, problems


def vocab_query(type_, family="short", nseg=3, timeout_s=1500, exclude_keys=(), only_key=None):
    """one query per (object type, slot-length family): TYPE s1 s2 s3 END with all three slots symbolic over every keyword slot
    of the family (so the slot under test is first, middle and last, with every neighbour).
    unsat(not accepted-with-the-right-reductions) = every member parses as TYPE { attr attr attr }."""
    import z3
    t0 = time.time()
    M = model()
    tab, problems = slot_table(M, type_)
    V = M.V
    if problems:
        s, text, ok = problems[0]
        return _vocab_cex(M, type_, text, f"slot {type_}.{s['key']} ({s['kind']}) does not parse on its own: {ok}", t0)
    cut = 4
    # slots listed as known findings are checked in their own obligation (only_key) so that they do not mask other members
    focus = [e for e in tab if only_key and e["slot"]["key"] == only_key]
    tab = [e for e in tab if e["slot"]["key"] not in exclude_keys or e["slot"]["key"] == only_key]
    short = [e for e in tab if len(e["toks"]) <= cut]
    longs = [e for e in tab if len(e["toks"]) > cut]
    if family == "short" and only_key:
        fam = [focus] + [short] * (nseg - 1)
    elif family == "short":
        fam = [short] * nseg
    else:
        # long slots (colour ranges, extents, lists ...) between representatives of the short ones
        ctx, seen = [], set()
        for e in short:
            sig = (e["toks"][0][0], e["toks"][-1][0], e["toks"][-1][1])
            if sig not in seen:
                seen.add(sig)
                ctx.append(e)
        fam = {"long0": [longs, ctx, ctx], "long1": [ctx, longs, ctx], "long2": [ctx, ctx, longs]}[family][:max(nseg, 2) if family != "long2" else 3]
        if family == "long2" and nseg == 2:
            fam = [ctx, longs]
        if not longs:
            return {"verdict": "PROVED-IN-BOUND", "detail": "no slot of this length family", "queries": 0, "witness": [], "solver_s": 0.0, "extra": {"members": 0}}
    lmax = max(len(e["toks"]) for f in fam for e in f)
    # bounds from the slots' own concrete runs: micro-steps = shifts + reductions (+ padding cells), stack depth
    def cost(e):
        return len(e["toks"]) + e["n_red"]
    steps = 2 + sum(max(cost(e) + (lmax - len(e["toks"])) for e in f) for f in fam) + 8
    depth = 6 + max(e["depth"] for f in fam for e in f)
    type_tok, ok = M.real_tokens(f"{type_.upper()}\nEND")
    b_ty, b_tc = type_tok[0][0], type_tok[0][1]

    def segment(prefix, entries, prev_tc_expr):
        """cells of one slot segment (lmax cells, padded) chosen by a fresh selector variable"""
        selv = z3.BitVec(prefix, W)
        cells = []
        for j in range(lmax):
            col = []
            for e in entries:
                if j < len(e["toks"]):
                    ty, tc, _ = e["toks"][j]
                    if j == 0:
                        col.append(None)          # depends on the previous segment
                    else:
                        col.append(M.tid[M.retag(ty, tc, e["toks"][j - 1][1])])
                else:
                    col.append(M.tid["$PAD"])
            if j == 0:
                # effective type of the first cell: re-tagged iff raw UNQUOTED_STRING, not a symbol attribute, previous text SYMBOL; GRID after NAME
                opts = []
                for e in entries:
                    ty, tc, _ = e["toks"][0]
                    plain = V(M.tid[ty])
                    if ty == "UNQUOTED_STRING" and tc not in (T_NAME, T_SYMATTR):
                        opts.append(z3.If(prev_tc_expr == T_SYMBOL, V(M.tid["UNQUOTED_STRING_VALUE"]), plain))
                    elif ty == "GRID":
                        opts.append(z3.If(prev_tc_expr == T_NAME, V(M.tid["UNQUOTED_STRING_VALUE"]), plain))
                    else:
                        opts.append(plain)
                cells.append(M.sel(opts, selv))
            else:
                cells.append(M.lut(col, selv))
        last_tc = M.lut([e["toks"][-1][1] for e in entries], selv)
        n_attr = M.lut([e["n_attr"] for e in entries], selv)
        n_comp = M.lut([e["n_comp"] for e in entries], selv)
        return selv, cells, last_tc, n_attr, n_comp

    segs, prev = [], V(b_tc)
    for i, f in enumerate(fam):
        sg = segment("sel%d" % (i + 1), f, prev)
        segs.append(sg)
        prev = sg[2]
    sels = [sg[0] for sg in segs]
    toks = [V(M.tid[b_ty])] + [c for sg in segs for c in sg[1]] + [V(M.tid["_END"])]
    a_sum = sum([sg[3] for sg in segs][1:], segs[0][3])
    k_sum = sum([sg[4] for sg in segs][1:], segs[0][4])
    S, events, st = M.bmc(toks, depth, steps)
    S.set("timeout", timeout_s * 1000)
    dom = z3.And([z3.ULT(sv, len(f)) for sv, f in zip(sels, fam)])
    S.add(dom)
    good = z3.And(st[-1] == 1, M.count_reduces(events, "attr") == a_sum, M.count_reduces(events, "composite") == 1 + k_sum)
    S.push()
    S.add(z3.Not(good), st[-1] != 3, st[-1] != 0)     # status 3 = stack bound hit, 0 = step bound hit: inconclusive, not a counterexample
    r = str(S.check())
    members = 1
    for f in fam:
        members *= len(f)
    res = {"queries": 2, "extra": {"type": type_, "family": family, "members": members, "slots": [len(f) for f in fam], "cells": len(toks), "steps": steps, "depth": depth}}
    if r == "sat":
        m = S.model()
        idx = [m.eval(x, model_completion=True).as_long() for x in sels]
        parts = [fam[i][idx[i]]["text"] for i in range(len(fam))]
        text = f"{type_.upper()}\n" + "\n".join(parts) + "\nEND"
        return _vocab_cex(M, type_, text, f"{type_}: keyword sequence is not parsed as attributes of one {type_.upper()} block", t0, res)
    if r != "unsat":
        res.update(verdict="INCONCLUSIVE", detail=f"solver: {r}", solver_s=time.time() - t0)
        return res
    S.pop()
    # bounds were sufficient for every member? (no member ends at the step / stack bound)
    S.push()
    S.add(z3.Or(st[-1] == 3, st[-1] == 0))
    rb = str(S.check())
    S.pop()
    S.push()
    S.add(good)
    tw = str(S.check())
    if rb != "unsat":
        res.update(verdict="INCONCLUSIVE", detail=f"unwinding check: some member reaches the step/stack bound ({rb})", solver_s=time.time() - t0)
        return res
    if tw != "sat":
        res.update(verdict="VACUOUS", detail="no member is accepted", solver_s=time.time() - t0)
        return res
    m = S.model()
    idx = [m.eval(x, model_completion=True).as_long() for x in sels]
    res["queries"] = 3
    res.update(verdict="PROVED-IN-BOUND", detail="unsat", witness=[fam[i][idx[i]]["text"] for i in range(len(fam))], solver_s=time.time() - t0)
    return res


VOCAB_REPLAY = '''# replay through the public API
import sys, logging
logging.disable(logging.CRITICAL)
import mappyfile
TEXT = %r
try:
    d = mappyfile.loads(TEXT, expand_includes=False)
except Exception as ex:
    print("loads raised", type(ex).__name__, str(ex)[:200])
    sys.exit(1)
keys = [k for k in d.keys() if not k.startswith("__")]
print("parsed keys:", keys)
sys.exit(0 if len(keys) >= %d and d["__type__"] == %r else 1)
'''


def _vocab_cex(M, type_, text, detail, t0, res=None):
    res = res or {"queries": 1}
    nkeys = len({ln.split()[0].lower() for ln in text.split("\n")[1:-1]})
    res.update(verdict="CEX", detail=detail, cex={"text": text}, replay_code=VOCAB_REPLAY % (text, nkeys, type_), solver_s=time.time() - t0)
    return res


# ---------------------------------------------------------------------------------------------------------------------
# C11: the interactive loop never indexes an empty value stack after the first token
# ---------------------------------------------------------------------------------------------------------------------

def loop_query(n=5, steps=40, depth=10):
    """for every sequence of n effective terminals: whenever the driver is about to consume input cell i >= 1 (the moment
    Parser.parse inspects token i), the value stack (state stack minus the start state) is non-empty; and the AST guard for the
    first token is present."""
    import z3
    t0 = time.time()
    M = model()
    V = M.V
    toks = [z3.BitVec("tok%d" % i, W) for i in range(n)]
    S, events, st = M.bmc(toks, depth, steps)
    S.set("timeout", 600000)
    for t in toks:
        S.add(z3.ULT(t, len(M.terms)), t != M.tid["$END"], t != M.tid["$PAD"])
    S.push()
    S.add(z3.Or([z3.And(e["running"], e["sp"] == 1, e["pos"] >= 1, z3.ULT(e["pos"], n)) for e in events]))
    r = str(S.check())
    S.pop()
    S.push()
    S.add(z3.Or([z3.And(e["running"], e["sp"] == 1, e["pos"] == 0) for e in events]), st[-1] == 1)
    tw = str(S.check())
    wit = None
    if tw == "sat":
        m = S.model()
        wit = [M.terms[m.eval(t, model_completion=True).as_long()] for t in toks]
    S.pop()
    res = {"queries": 2, "solver_s": time.time() - t0, "extra": {"tokens": n, "steps": steps, "guard_in_source": M.guarded}}
    if r == "sat":
        res.update(verdict="INCONCLUSIVE", detail="model reaches an empty value stack after the first token: the encoding's key observation fails; not claimed")
    elif r == "unsat" and tw == "sat" and M.guarded:
        res.update(verdict="PROVED-IN-BOUND", detail="unsat; first-token inspection guarded in the source", witness=wit)
    elif r == "unsat" and tw == "sat":
        text = "GRID\n  LABELFORMAT \"DD\"\nEND"
        code = ('import sys, logging\nlogging.disable(logging.CRITICAL)\nimport mappyfile\nfrom lark.exceptions import LarkError\n'
                f'try:\n    mappyfile.loads({text!r})\nexcept LarkError:\n    sys.exit(0)\nexcept Exception as ex:\n    print(type(ex).__name__, ex)\n    sys.exit(1)\nsys.exit(0)\n')
        res.update(verdict="CEX", detail="value_stack[-1] is evaluated for the first token with an empty stack and the source has no emptiness guard",
                   cex={"text": text}, replay_code=code)
    else:
        res.update(verdict="INCONCLUSIVE", detail=f"solver: {r}, twin: {tw}")
    return res


def root_query():
    """C11 / C19: every block type the grammar can open is accepted as the root of a partial Mapfile (TYPE END), and a list of
    two roots is accepted as well; the block type is symbolic over the grammar's composite_type terminals."""
    import z3
    t0 = time.time()
    M = model()
    V = M.V
    blocks = sorted({str(r.expansion[0].name) for r in M.rules if str(r.origin.name) == "composite_type"})
    b1, b2 = z3.BitVec("b1", W), z3.BitVec("b2", W)
    toks = [b1, V(M.tid["_END"]), b2, V(M.tid["_END"])]
    S, events, st = M.bmc(toks, 10, 40)
    S.set("timeout", 300000)
    S.add(z3.Or([b1 == M.tid[b] for b in blocks]), z3.Or([b2 == M.tid[b] for b in blocks]))
    S.push()
    S.add(st[-1] != 1)
    r = str(S.check())
    res = {"queries": 2, "extra": {"blocks": blocks}}
    if r == "sat":
        m = S.model()
        names = [M.terms[m.eval(x, model_completion=True).as_long()] for x in (b1, b2)]
        text = f"{names[0]}\nEND\n{names[1]}\nEND"
        code = ('import sys, logging\nlogging.disable(logging.CRITICAL)\nimport mappyfile\n'
                f'try:\n    d = mappyfile.loads({text!r})\nexcept Exception as ex:\n    print(type(ex).__name__, ex)\n    sys.exit(1)\nsys.exit(0 if isinstance(d, list) and len(d) == 2 else 1)\n')
        res.update(verdict="CEX", detail=f"root blocks {names} are not accepted", cex={"text": text}, replay_code=code, solver_s=time.time() - t0)
        return res
    S.pop()
    S.add(st[-1] == 1)
    tw = str(S.check())
    if r == "unsat" and tw == "sat" and len(blocks) >= 19:
        res.update(verdict="PROVED-IN-BOUND", detail=f"unsat over {len(blocks)}^2 root pairs", witness=blocks, solver_s=time.time() - t0)
    else:
        res.update(verdict="INCONCLUSIVE", detail=f"solver {r}, twin {tw}, blocks {len(blocks)}", solver_s=time.time() - t0)
    return res


# ---------------------------------------------------------------------------------------------------------------------
# C10: operator precedence and left associativity of the real table (LA-PREC)
# ---------------------------------------------------------------------------------------------------------------------

PREC_REPLAY = '''# replay: the normal form the real pipeline stores for ( 1 OP1 2 OP2 3 ), against a precedence-climbing reference
import sys, logging
logging.disable(logging.CRITICAL)
import mappyfile
op1, op2, c1, c2 = %r, %r, %d, %d      # classes: 0 OR, 1 AND, 2 comparison, 3 additive, 4 multiplicative
def join(cls, a, op, b):
    if cls == 0:
        return "( " + a + " OR " + b + " )"
    if cls == 1:
        return "( " + a + " AND " + b + " )"
    if cls == 2:
        return "( " + a + " " + op + " " + b + " )"
    return a + " " + op + " " + b
if c1 >= c2:            # left operator binds at least as tightly (all binary operators are left-associative)
    exp = join(c2, join(c1, "1", op1, "2"), op2, "3")
else:
    exp = join(c1, "1", op1, join(c2, "2", op2, "3"))
if not (exp.startswith("(") and exp.endswith(")") and exp.count("(") == exp.count(")") and c1 != c2 or (min(c1, c2) <= 2)):
    exp = "(" + exp + ")"
text = "CLASS EXPRESSION ( 1 " + op1 + " 2 " + op2 + " 3 ) END"
try:
    got = mappyfile.loads(text)["expression"]
except Exception as ex:
    print(text, "->", type(ex).__name__)
    sys.exit(1)
print(text, "->", got, "| expected", exp)
sys.exit(0 if got.replace(" ", "") == exp.replace(" ", "") or got.replace(" ", "") == ("(" + exp + ")").replace(" ", "") else 1)
'''


def prec_query(steps=64, depth=16):
    """( 1 OP1 2 OP2 3 ) with OP1, OP2 symbolic over every binary operator terminal of the grammar (OR / ||, AND / &&, the 19
    comparison spellings, + -, * / ^): the real table accepts every pair; when the two operators are of different precedence
    classes the tighter one's rule reduces first, and when they are of the same class the left one reduces before the third
    operand is shifted (left associativity).  Classes (loosest first): OR < AND < comparison < additive < multiplicative."""
    import z3
    t0 = time.time()
    M = model()
    V = M.V

    # precedence classes by operator SPELLING, from the property statement (independent of how the grammar groups them)
    spell_classes = [{"OR", "||"}, {"AND", "&&"},
                     {">=", "<", "=*", "==", "=", "!=", "~", "~*", ">", "%", "<=", "IN", "NE", "EQ", "LE", "LT", "GE", "GT", "LIKE"},
                     {"+", "-"}, {"*", "/", "^"}]
    term_of = {}
    for t in M.P.lalr.terminals:
        if type(t.pattern).__name__ == "PatternStr":
            term_of[t.pattern.value.upper()] = t.name
    classes = []
    for sc_ in spell_classes:
        classes.append({term_of[sp] for sp in sc_ if sp in term_of and term_of[sp] in M.tid})
    cmp_terms = classes[2]
    if not all(classes) or len(cmp_terms) < 10:
        return {"verdict": "INCONCLUSIVE", "detail": f"operator terminals not found for every class: {[len(c) for c in classes]}"}
    cmp_rule_terms = {str(r.expansion[0].name) for r in M.rules if str(r.origin.name) == "compare_op"}

    def rules_applying(ts):
        """rules that combine two operands with one of the operator terminals ts (directly, or through compare_op)"""
        out = []
        for i, r in enumerate(M.rules):
            if len(r.expansion) != 3:
                continue
            mid = str(r.expansion[1].name)
            if mid in ts or (mid == "compare_op" and (ts & cmp_rule_terms)):
                out.append(i)
        return out
    rule_sets = [rules_applying(ts) for ts in classes]
    if not all(rule_sets):
        return {"verdict": "INCONCLUSIVE", "detail": "no rule applies some operator class"}
    # token types of the fixed part from the real scanner
    toks, ok = M.real_tokens("CLASS EXPRESSION ( 1 + 2 + 3 ) END")
    if ok is not True or len(toks) != 10:
        return {"verdict": "INCONCLUSIVE", "detail": f"template does not lex to 10 tokens: {ok}"}
    base = M.effective(toks)
    op1, op2 = z3.BitVec("op1", W), z3.BitVec("op2", W)
    cells = [V(M.tid[t]) for t in base]
    cells[4], cells[6] = op1, op2
    S, events, st = M.bmc(cells, depth, steps)
    S.set("timeout", 900000)
    allops = sorted(set().union(*classes))
    S.add(z3.Or([op1 == M.tid[t] for t in allops]), z3.Or([op2 == M.tid[t] for t in allops]))

    def cls(op):
        e = V(9)
        for ci, ts in enumerate(classes):
            e = z3.If(z3.Or([op == M.tid[t] for t in ts]), V(ci), e)
        return e

    def first_red(rs):
        e = V(4000)
        for ev in reversed(events):
            e = z3.If(z3.And(ev["running"], ev["is_red"], z3.Or([ev["r"] == k for k in rs])), V(ev["j"]), e)
        return e

    def first_red_pos(rs):
        e = V(4000)
        for ev in reversed(events):
            e = z3.If(z3.And(ev["running"], ev["is_red"], z3.Or([ev["r"] == k for k in rs])), ev["pos"], e)
        return e
    c1, c2 = cls(op1), cls(op2)
    fr = [first_red(rs) for rs in rule_sets]
    frp = [first_red_pos(rs) for rs in rule_sets]
    sel_fr = lambda c: M.sel(fr, c)
    sel_frp = lambda c: M.sel(frp, c)
    good = z3.And(st[-1] == 1,
                  z3.Implies(c1 != c2, z3.If(z3.UGT(c1, c2), z3.ULT(sel_fr(c1), sel_fr(c2)), z3.ULT(sel_fr(c2), sel_fr(c1)))),
                  z3.Implies(c1 == c2, sel_frp(c1) == 6))          # reduced with OP2 as look-ahead, before operand 3 is shifted
    S.push()
    S.add(z3.Not(good), st[-1] != 3, st[-1] != 0)
    r = str(S.check())
    res = {"queries": 3, "extra": {"operators": len(allops), "pairs": len(allops) ** 2, "classes": [sorted(c) for c in classes], "steps": steps, "depth": depth}}
    names = {v: k for k, v in M.tid.items()}
    spelling = {}
    for t in M.P.lalr.terminals:
        if type(t.pattern).__name__ == "PatternStr":
            spelling[t.name] = t.pattern.value
    if r == "sat":
        m = S.model()
        o1, o2 = names[m.eval(op1).as_long()], names[m.eval(op2).as_long()]
        k1 = [i for i, ts in enumerate(classes) if o1 in ts][0]
        k2 = [i for i, ts in enumerate(classes) if o2 in ts][0]
        res.update(verdict="CEX", detail=f"( 1 {spelling.get(o1, o1)} 2 {spelling.get(o2, o2)} 3 ): operators are not reduced in precedence / left-associative order",
                   cex={"op1": o1, "op2": o2}, replay_code=PREC_REPLAY % (spelling.get(o1, o1), spelling.get(o2, o2), k1, k2), solver_s=time.time() - t0)
        return res
    if r != "unsat":
        res.update(verdict="INCONCLUSIVE", detail=f"solver: {r}", solver_s=time.time() - t0)
        return res
    S.pop()
    S.push()
    S.add(z3.Or(st[-1] == 3, st[-1] == 0))
    rb = str(S.check())
    S.pop()
    S.add(good, c1 != c2)
    tw = str(S.check())
    if rb != "unsat" or tw != "sat":
        res.update(verdict="INCONCLUSIVE", detail=f"unwinding {rb}, twin {tw}", solver_s=time.time() - t0)
        return res
    m = S.model()
    res.update(verdict="PROVED-IN-BOUND", detail="unsat", witness=[spelling.get(names[m.eval(op1).as_long()]), spelling.get(names[m.eval(op2).as_long()])], solver_s=time.time() - t0)
    return res
