"""./vf check <ID> [--tier quick|thorough]   |   ./vf replay <path>"""
from __future__ import annotations
import argparse, importlib, os, subprocess, sys
from engine import core


def main(argv=None):
    ap = argparse.ArgumentParser(prog="vf")
    sub = ap.add_subparsers(dest="cmd", required=True)
    c = sub.add_parser("check")
    c.add_argument("prop")
    c.add_argument("--tier", default=os.environ.get("VERIF_TIER", "quick"), choices=["quick", "thorough"])
    c.add_argument("--only", default=None, help="fnmatch filter on obligation names (debugging)")
    r = sub.add_parser("replay")
    r.add_argument("path")
    a = ap.parse_args(argv)
    if a.cmd == "replay":
        p = subprocess.run([core.PY, a.path], env=core._env())
        return p.returncode
    seed = int(os.environ.get("VERIF_SEED", "0") or 0)
    mod = importlib.import_module(f"checks.{a.prop}")
    obs = mod.obligations(a.tier, seed)
    if a.only:
        import fnmatch
        obs = [o for o in obs if fnmatch.fnmatch(o.name, a.only)]
    return core.run_check(a.prop, a.tier, seed, obs, mod.INFO)


if __name__ == "__main__":
    sys.exit(main())
