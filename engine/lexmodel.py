"""E-LEX: z3 model of lark's per-parser-state scanner for mappyfile's grammar (DESIGN §2.3), generated on every run from
the live objects: terminal regexes (``to_regexp()``), the state's scan order, the keyword re-typing tables (UnlessCallback)
and the %ignore set.

Text = L symbolic code points + symbolic length; positions are concrete.  ``match(nodes, i)`` returns the *ordered* list of
(condition, end) candidates in CPython's backtracking priority order; the scanner is "first terminal in lark's order with a
candidate; its first candidate is the lexeme"; then lark's keyword re-typing.  Every run validates the model against the
real scanner (``lexer.match``) on random strings; a disagreement is a HARNESS-ERROR, never a verdict.
"""
from __future__ import annotations

import logging
import random
import re
import re._constants as sc
import re._parser as sp
import time

logging.disable(logging.CRITICAL)
CW = 21


class RM:
    """bounded symbolic model of `re.match` at concrete positions over symbolic characters"""

    def __init__(self, L, prefix=""):
        import z3
        self.z3 = z3
        self.L = L
        self.x = [z3.BitVec("%sx%d" % (prefix, i), CW) for i in range(L)]
        self.n = z3.Int(prefix + "n")
        self.memo = {}
        self._keep = []
        self.cap = None            # optional bound on the number of backtracking candidates built (OverflowError beyond)
        self.built = 0

    def inrange(self, i):
        return self.n > i

    def cls(self, items, icase, c):
        z3 = self.z3
        neg, ors = False, []

        def lit(v):
            vs = {v}
            if icase:
                ch = chr(v)
                if len(ch.lower()) == 1 and len(ch.upper()) == 1:
                    vs |= {ord(ch.lower()), ord(ch.upper())}
            return z3.Or([c == k for k in vs])
        for op, av in items:
            if op == sc.NEGATE:
                neg = True
            elif op == sc.LITERAL:
                ors.append(lit(av))
            elif op == sc.RANGE:
                lo, hi = av
                rs = [(lo, hi)]
                if icase:
                    for a, b, off in ((65, 90, 32), (97, 122, -32)):
                        l, h = max(lo, a), min(hi, b)
                        if l <= h:
                            rs.append((l + off, h + off))
                    # Latin-1 letters used by UNQUOTED_STRING (\xc0-\xff): case pairs differ by 32 except \xd7 / \xf7 and \xdf / \xff
                    for a, b, off in ((0xc0, 0xde, 32), (0xe0, 0xfe, -32)):
                        l, h = max(lo, a), min(hi, b)
                        if l <= h:
                            rs.append((l + off, h + off))
                ors.append(z3.Or([z3.And(z3.UGE(c, l), z3.ULE(c, h)) for l, h in rs]))
            elif op == sc.CATEGORY:
                rs = {sc.CATEGORY_DIGIT: [(48, 57)], sc.CATEGORY_SPACE: [(9, 13), (32, 32)]}[av]
                ors.append(z3.Or([z3.And(z3.UGE(c, l), z3.ULE(c, h)) for l, h in rs]))
            else:
                raise NotImplementedError(op)
        e = z3.Or(ors)
        return z3.Not(e) if neg else e

    def match(self, seq, i, icase, dotall):
        z3 = self.z3
        if not seq:
            return [(z3.BoolVal(True), i)]
        key = (tuple(id(s) for s in seq), i, icase, dotall)
        if key in self.memo:
            return self.memo[key]
        (op, av), rest = seq[0], tuple(seq[1:])
        res = []

        def then(cands):
            out = []
            for c, j in cands:
                for c2, j2 in self.match(rest, j, icase, dotall):
                    out.append((z3.And(c, c2), j2))
            return out

        def one(pred):
            if i >= self.L:
                return []
            return then([(z3.And(self.inrange(i), pred(self.x[i])), i + 1)])
        if op == sc.LITERAL:
            res = one(lambda c: self.cls([(sc.LITERAL, av)], icase, c))
        elif op == sc.NOT_LITERAL:
            res = one(lambda c: z3.Not(self.cls([(sc.LITERAL, av)], icase, c)))
        elif op == sc.ANY:
            res = one(lambda c: z3.BoolVal(True) if dotall else c != 10)
        elif op == sc.IN:
            res = one(lambda c: self.cls(av, icase, c))
        elif op == sc.BRANCH:
            for alt in av[1]:
                res += self.match(tuple(alt) + rest, i, icase, dotall)
        elif op == sc.SUBPATTERN:
            g, addf, delf, sub = av
            ic = icase or bool(addf & re.I)
            da = dotall or bool(addf & re.S)
            if (ic, da) == (icase, dotall):
                res = self.match(tuple(sub) + rest, i, icase, dotall)
            else:
                for c, j in self.match(tuple(sub), i, ic, da):
                    for c2, j2 in self.match(rest, j, icase, dotall):
                        res.append((z3.And(c, c2), j2))
        elif op in (sc.MAX_REPEAT, sc.MIN_REPEAT):
            lo, hi, sub = av
            sub = tuple(sub)

            def rep(k, pos, depth):
                stop = self.match(rest, pos, icase, dotall) if k >= lo else []
                more = []
                if (hi == sc.MAXREPEAT or k < hi) and depth <= self.L:
                    for c, j in self.match(sub, pos, icase, dotall):
                        if j == pos:
                            continue
                        for c2, j2 in rep(k + 1, j, depth + 1):
                            more.append((z3.And(c, c2), j2))
                return (more + stop) if op == sc.MAX_REPEAT else (stop + more)
            res = rep(0, i, 0)
        elif op == sc.ASSERT_NOT:
            direction, sub = av
            if direction != 1:
                raise NotImplementedError("look-behind")
            la = self.match(tuple(sub), i, icase, dotall)
            ok = z3.Not(z3.Or([c for c, _ in la])) if la else z3.BoolVal(True)
            res = [(z3.And(ok, c), j) for c, j in self.match(rest, i, icase, dotall)]
        else:
            raise NotImplementedError(str(op))
        res = [(z3.simplify(c), j) for c, j in res]
        res = [(c, j) for c, j in res if not z3.is_false(c)]
        self.built += len(res)
        if self.cap is not None and (len(res) > self.cap or self.built > 50 * self.cap):
            raise OverflowError("backtracking candidates exceed the cap")
        self.memo[key] = res
        return res

    def first(self, pattern, i=0, whole_to=None):
        """(ok, end, #candidates) of re.match(pattern, text, i); with whole_to=j: ok iff some candidate ends exactly at j"""
        z3 = self.z3
        p = sp.parse(pattern)
        self._keep.append(p)
        cands = self.match(tuple(p), i, bool(p.state.flags & re.I), bool(p.state.flags & re.S))
        if whole_to is not None:
            return cands
        ok = z3.Or([c for c, _ in cands]) if cands else z3.BoolVal(False)
        end = z3.IntVal(-1)
        for c, j in reversed(cands):
            end = z3.If(c, z3.IntVal(j), end)
        return ok, end, len(cands)


class Scanner:
    """the real BasicLexer of one parser state, as a model"""

    def __init__(self, prefix_text, ntoks):
        from mappyfile.parser import Parser
        self.P = Parser()
        CL = self.P.lalr.parser.lexer
        ip = self.P.lalr.parse_interactive(prefix_text)
        it = ip.iter_parse()
        for _ in range(ntoks):
            next(it)
        self.state = ip.parser_state.position
        self.lexer = CL.lexers[self.state]
        self.order = [(t.name, t.pattern.to_regexp()) for t in self.lexer.scanner.terminals]
        self.names = [n for n, _ in self.order]
        self.ignore = set(self.lexer.ignore_types)
        # keyword re-typing: a lexeme of terminal T that as a whole matches keyword K becomes K
        self.unless = {}
        for tname, cb in self.lexer.callback.items():
            sc_ = getattr(cb, "scanner", None)
            if sc_ is not None:
                self.unless[tname] = [(t.name, t.pattern.to_regexp()) for t in sc_.terminals]
        self.keywords = sorted({k for v in self.unless.values() for k, _ in v})
        self.allnames = self.names + [k for k in self.keywords if k not in self.names]

    def scan(self, m, i=0):
        """(type index into allnames, end, ok) of the token the real scanner produces at position i"""
        z3 = m.z3
        ty, end, ok = z3.IntVal(-1), z3.IntVal(-1), z3.BoolVal(False)
        for idx in range(len(self.order) - 1, -1, -1):
            name, rx = self.order[idx]
            o, e, _ = m.first(rx, i)
            t_here = z3.IntVal(idx)
            if name in self.unless:
                # whole-lexeme match of a keyword: first keyword in the callback's own scan order wins
                for kname, krx in reversed(self.unless[name]):
                    cands = m.first(krx, i, whole_to=True)
                    whole = z3.Or([z3.And(c, e == j) for c, j in cands]) if cands else z3.BoolVal(False)
                    t_here = z3.If(whole, z3.IntVal(self.allnames.index(kname)), t_here)
            ty = z3.If(o, t_here, ty)
            end = z3.If(o, e, end)
            ok = z3.Or(o, ok)
        return ty, end, ok

    def real(self, w, i=0):
        """what the real scanner does on text w at position i: (type name, end) or None"""
        from lark.lexer import TextSlice
        r = self.lexer.scanner.match(TextSlice.cast_from(w), i) if hasattr(self.lexer.scanner, "match") else None
        if r is None:
            return None
        value, ty = r
        cb = self.lexer.callback.get(ty)
        if cb is not None and hasattr(cb, "scanner"):
            from lark.lexer import Token
            t = cb(Token(ty, value))
            ty = t.type
        return (ty, i + len(value))

    def validate(self, L=8, n=250, seed=0):
        import z3
        rnd = random.Random(seed)
        alpha = 'abENDend"\\\'i/ 1.-e_:#*\n\r\t%[(){},' + "\xe9"
        m = RM(L)
        ty, end, ok = self.scan(m)
        s = z3.Solver()
        bad = []
        for _ in range(n):
            w = "".join(rnd.choice(alpha) for _ in range(rnd.randint(0, L)))
            r = self.real(w)
            s.push()
            s.add(m.n == len(w))
            for k, ch in enumerate(w):
                s.add(m.x[k] == ord(ch))
            assert str(s.check()) == "sat"
            mo = s.model()
            gok = z3.is_true(mo.eval(ok, model_completion=True))
            gty = mo.eval(ty, model_completion=True).as_long()
            gend = mo.eval(end, model_completion=True).as_long()
            s.pop()
            want = None if r is None else (r[0], r[1])
            got = (self.allnames[gty], gend) if gok else None
            if want != got:
                bad.append((w, want, got))
        return bad


CONTEXTS = {
    "value": ('LAYER NAME "x" END', 2),          # after `LAYER NAME`: a value is expected
    "body": ('LAYER NAME "x" END', 1),           # after `LAYER`: a keyword / block opener / END is expected
    "kv": ('LAYER METADATA "a" "b" END END', 2),  # inside METADATA: keys and values
}
_SC = {}


def scanner(ctx):
    if ctx not in _SC:
        _SC[ctx] = Scanner(*CONTEXTS[ctx])
    return _SC[ctx]


def _res(t0, queries, **kw):
    d = {"solver_s": time.time() - t0, "queries": queries}
    d.update(kw)
    return d


REPLAY = '''# replay on the real scanner of the same parser state and through loads
import sys
sys.path.insert(0, %r)
from engine import lexmodel
S = lexmodel.scanner(%r)
w = %r
print("text:", repr(w), "real scanner:", S.real(w), "expected:", %r)
sys.exit(1 if S.real(w) != %r else 0)
'''


def _cex(S, ctx, m, mo, expected, detail, t0, q):
    n = mo.eval(m.n, model_completion=True).as_long()
    w = "".join(chr(mo.eval(m.x[j], model_completion=True).as_long()) for j in range(n))
    import os
    verif = os.path.dirname(os.path.dirname(os.path.abspath(__file__)))
    return _res(t0, q, verdict="CEX", detail=detail + f" text={w!r} real={S.real(w)}", cex={"text": w},
                replay_code=REPLAY % (verif, ctx, w, expected(w), expected(w)))


def lx_validate(ctx="value", L=8, n=300, seed=0):
    t0 = time.time()
    S = scanner(ctx)
    bad = S.validate(L, n, seed)
    if bad:
        return _res(t0, n, verdict="HARNESS-ERROR", detail=f"scanner model disagrees with the real scanner: {bad[:3]}")
    return _res(t0, n, verdict="PROVED-IN-BOUND", detail=f"model == real scanner on {n} random strings (L<={L})", witness={"state": S.state, "order": S.names})


def lx_class_quoted(ctx="value", q=34, L=12, hyp=("nobackslash", "nothex")):
    """LX-CLASS for quoted strings: for every text  q s q d ...  (s without q, not ending in a backslash, not starting with '#',
    d in {space, tab, LF, CR, '#'}) the scanner yields one (DOUBLE|SINGLE)_QUOTED_STRING token whose lexeme is exactly q s q."""
    import z3
    t0 = time.time()
    S = scanner(ctx)
    m = RM(L)
    ty, end, ok = S.scan(m)
    want = S.allnames.index("DOUBLE_QUOTED_STRING" if q == 34 else "SINGLE_QUOTED_STRING")
    k = z3.Int("k")

    def base(s):
        s.add(m.n <= L, k >= 1, k + 1 < m.n, m.x[0] == q)
        for j in range(L):
            s.add(z3.Implies(z3.And(j >= 1, k > j), m.x[j] != q), z3.Implies(k == j, m.x[j] == q))
            s.add(z3.Implies(k + 1 == j, z3.Or([m.x[j] == d for d in (32, 9, 10, 13, 35)])))
            if "nobackslash" in hyp:
                s.add(z3.Implies(z3.And(k - 1 == j, j >= 1), m.x[j] != 92))
        if "nothex" in hyp:
            s.add(m.x[1] != 35)
    s = z3.Solver()
    s.set("timeout", 300000)
    base(s)
    s.push()
    s.add(z3.Not(z3.And(ok, ty == want, end == k + 1)))
    r = str(s.check())
    if r == "sat":
        mo = s.model()
        kk = mo.eval(k).as_long()
        return _cex(S, ctx, m, mo, lambda w: (S.allnames[want], kk + 1), "quoted string does not scan to one string token:", t0, 1)
    s.pop()
    s.add(z3.And(ok, ty == want, end == k + 1), k >= 3)
    tw = str(s.check())
    if r == "unsat" and tw == "sat":
        mo = s.model()
        n = mo.eval(m.n).as_long()
        return _res(t0, 2, verdict="PROVED-IN-BOUND", detail="unsat", witness="".join(chr(mo.eval(m.x[j], model_completion=True).as_long()) for j in range(n)))
    return _res(t0, 2, verdict="INCONCLUSIVE", detail=f"solver {r}, twin {tw}")


def lx_ignored_runs(ctx="body", L=10):
    """LX-SEP / LX-NL: at the start of a maximal run of blanks [ \\t\\f]+ or line breaks [\\r\\n]+ (LF, CRLF, CR alike), of a
    `#` comment (up to the line break) or a C comment (up to the first */), the scanner yields an *ignored* token covering
    exactly that run - whatever follows.  Together with position-locality of re.match (no look-behind in any terminal, checked)
    this makes the non-ignored token stream independent of the separators."""
    import z3
    t0 = time.time()
    S = scanner(ctx)
    # no terminal may look behind or anchor: the scan at a position depends on the text from that position on only
    for name, rx in S.order:
        for op, av in _walk(sp.parse(rx)):
            if op == sc.AT or (op in (sc.ASSERT, sc.ASSERT_NOT) and av[0] != 1):
                return _res(t0, 0, verdict="INCONCLUSIVE", detail=f"terminal {name} uses an anchor / look-behind: locality argument does not apply")
    m = RM(L)
    ty, end, ok = S.scan(m)
    k = z3.Int("k")
    q = 0
    fams = {
        "WS": (lambda c: z3.Or(c == 32, c == 9, c == 12), "WS"),
        "NL": (lambda c: z3.Or(c == 10, c == 13), "_NL"),
    }
    wit = {}
    for fam, (member, tname) in fams.items():
        want = S.allnames.index(tname)
        if tname not in S.ignore:
            return _res(t0, q, verdict="CEX", detail=f"{tname} is not ignored in this state", cex={}, replay_code="import sys\nsys.exit(1)\n")
        s = z3.Solver()
        s.set("timeout", 300000)
        s.add(m.n <= L, k >= 1, k <= m.n)
        for j in range(L):
            s.add(z3.Implies(k > j, member(m.x[j])), z3.Implies(z3.And(k == j, m.n > j), z3.Not(member(m.x[j]))))
        s.push()
        s.add(z3.Not(z3.And(ok, ty == want, end == k)))
        r = str(s.check())
        q += 1
        if r == "sat":
            mo = s.model()
            kk = mo.eval(k).as_long()
            return _cex(S, ctx, m, mo, lambda w: (tname, kk), f"a run of {fam} is not consumed as one ignored token:", t0, q)
        if r != "unsat":
            return _res(t0, q, verdict="INCONCLUSIVE", detail=f"{fam}: {r}")
        s.pop()
        s.add(k >= 3, k < m.n)
        if str(s.check()) != "sat":
            return _res(t0, q, verdict="VACUOUS", detail=fam)
        mo = s.model()
        wit[fam] = "".join(chr(mo.eval(m.x[j], model_completion=True).as_long()) for j in range(mo.eval(m.n).as_long()))
    # comments
    for fam, tname in (("#", "COMMENT"), ("/*", "CCOMMENT")):
        want = S.allnames.index(tname)
        s = z3.Solver()
        s.set("timeout", 300000)
        if fam == "#":
            s.add(m.n <= L, k >= 1, k <= m.n, m.x[0] == 35)
            for j in range(1, L):
                s.add(z3.Implies(k > j, m.x[j] != 10), z3.Implies(z3.And(k == j, m.n > j), m.x[j] == 10))
        else:
            s.add(m.n <= L, k >= 4, k <= m.n, m.x[0] == 47, m.x[1] == 42)
            for j in range(2, L):
                # k = end of the comment: x[k-2..k-1] == "*/" and no earlier "*/" starting at index >= 2
                s.add(z3.Implies(k - 2 == j, z3.And(m.x[j] == 42, m.x[j + 1] == 47 if j + 1 < L else False)))
                if j + 1 < L:
                    s.add(z3.Implies(k - 2 > j, z3.Not(z3.And(m.x[j] == 42, m.x[j + 1] == 47))))
        s.push()
        s.add(z3.Not(z3.And(ok, ty == want, end == k)))
        r = str(s.check())
        q += 1
        if r == "sat":
            mo = s.model()
            kk = mo.eval(k).as_long()
            return _cex(S, ctx, m, mo, lambda w: (tname, kk), f"a {fam} comment is not consumed verbatim as one ignored token:", t0, q)
        if r != "unsat":
            return _res(t0, q, verdict="INCONCLUSIVE", detail=f"{fam}: {r}")
        s.pop()
        s.add(k >= 5, k < m.n)
        if str(s.check()) != "sat":
            return _res(t0, q, verdict="VACUOUS", detail=fam)
        mo = s.model()
        wit[fam] = "".join(chr(mo.eval(m.x[j], model_completion=True).as_long()) for j in range(mo.eval(m.n).as_long()))
    return _res(t0, q + 4, verdict="PROVED-IN-BOUND", detail="unsat x4", witness=wit)


def _walk(p):
    for op, av in p:
        yield op, av
        if op == sc.BRANCH:
            for alt in av[1]:
                yield from _walk(alt)
        elif op == sc.SUBPATTERN:
            yield from _walk(av[3])
        elif op in (sc.MAX_REPEAT, sc.MIN_REPEAT):
            yield from _walk(av[2])
        elif op in (sc.ASSERT, sc.ASSERT_NOT):
            yield from _walk(av[1])


def lx_case_keywords(ctx="body", L=14, only=None):
    """LX-CASE: every keyword terminal accepted in the state: any letter-case variant of its literal followed by a delimiter
    scans to that keyword's terminal with the whole word as lexeme."""
    import z3
    t0 = time.time()
    S = scanner(ctx)
    from mappyfile.parser import Parser
    lits = {t.name: t.pattern.value for t in S.P.lalr.terminals if type(t.pattern).__name__ == "PatternStr"}
    accepted = [n for n in S.allnames if n in lits and lits[n].isalpha()]
    if only:
        accepted = [n for n in accepted if n in only]
    q = 0
    wit = None
    for kw in accepted:
        word = lits[kw]
        if len(word) + 1 > L:
            continue
        m = RM(len(word) + 2)
        ty, end, ok = S.scan(m)
        s = z3.Solver()
        s.set("timeout", 120000)
        s.add(m.n == len(word) + 1)
        for i, ch in enumerate(word):
            s.add(z3.Or(m.x[i] == ord(ch.lower()), m.x[i] == ord(ch.upper())))
        s.add(z3.Or([m.x[len(word)] == d for d in (32, 9, 10, 13, 35)]))
        s.push()
        s.add(z3.Not(z3.And(ok, ty == S.allnames.index(kw), end == len(word))))
        r = str(s.check())
        q += 1
        if r == "sat":
            mo = s.model()
            return _cex(S, ctx, m, mo, lambda w: (kw, len(word)), f"keyword {kw} is not recognised in some letter case:", t0, q)
        if r != "unsat":
            return _res(t0, q, verdict="INCONCLUSIVE", detail=f"{kw}: {r}")
        s.pop()
        if wit is None and str(s.check()) == "sat":
            mo = s.model()
            wit = "".join(chr(mo.eval(m.x[j], model_completion=True).as_long()) for j in range(len(word) + 1))
    return _res(t0, q, verdict="PROVED-IN-BOUND", detail=f"unsat x{q}", witness={"keywords": len(accepted), "sample": wit}, extra={"keywords": accepted})


def lx_bare_word(ctx="value", L=8):
    """LX-QUOTE (bare words): in value position a word over [a-z_][a-z0-9_]* that is not one of the state's keywords, followed by a
    delimiter, scans to one UNQUOTED_STRING token with the word as lexeme - the same content the quoted forms give."""
    import z3
    t0 = time.time()
    S = scanner(ctx)
    m = RM(L)
    ty, end, ok = S.scan(m)
    k = z3.Int("k")
    want = S.allnames.index("UNQUOTED_STRING")
    s = z3.Solver()
    s.set("timeout", 300000)
    s.add(m.n <= L, k >= 1, k < m.n)
    low = lambda c: z3.And(z3.UGE(c, 97), z3.ULE(c, 122))
    for j in range(L):
        s.add(z3.Implies(k > j, z3.Or(low(m.x[j]), m.x[j] == 95) if j == 0 else z3.Or(low(m.x[j]), m.x[j] == 95, z3.And(z3.UGE(m.x[j], 48), z3.ULE(m.x[j], 57)))))
        s.add(z3.Implies(k == j, z3.Or([m.x[j] == d for d in (32, 9, 10, 13, 35)])))
    s.push()
    # either the word is a keyword of this state (then it scans to that keyword), or it is one UNQUOTED_STRING token
    is_kw = z3.Or([ty == S.allnames.index(kw) for kw in S.keywords if kw in S.allnames]) if S.keywords else z3.BoolVal(False)
    s.add(z3.Not(z3.And(ok, end == k, z3.Or(ty == want, is_kw))))
    r = str(s.check())
    if r == "sat":
        mo = s.model()
        kk = mo.eval(k).as_long()
        return _cex(S, ctx, m, mo, lambda w: ("UNQUOTED_STRING", kk), "a bare word does not scan to one word token:", t0, 1)
    s.pop()
    s.add(ok, ty == want, end == k, k >= 4)
    tw = str(s.check())
    if r == "unsat" and tw == "sat":
        mo = s.model()
        return _res(t0, 2, verdict="PROVED-IN-BOUND", detail="unsat", witness="".join(chr(mo.eval(m.x[j], model_completion=True).as_long()) for j in range(mo.eval(m.n).as_long())))
    return _res(t0, 2, verdict="INCONCLUSIVE", detail=f"solver {r}, twin {tw}")


def lx_quote_symmetry(ctx="value", L=11):
    """LX-QUOTE (symmetry): for EVERY text of length <= L, swapping the two quote characters throughout the text swaps the
    DOUBLE_/SINGLE_ variants of the token the scanner produces (strings, hex colours) and leaves every other token type and the
    lexeme length unchanged - the choice of quote style carries no meaning of its own."""
    import z3
    t0 = time.time()
    S = scanner(ctx)
    m1, m2 = RM(L, "a_"), RM(L, "b_")
    ty1, end1, ok1 = S.scan(m1)
    ty2, end2, ok2 = S.scan(m2)
    s = z3.Solver()
    s.set("timeout", 600000)
    s.add(m1.n == m2.n, m1.n <= L, m1.n >= 0)
    for j in range(L):
        a, b = m1.x[j], m2.x[j]
        s.add(z3.If(a == 34, b == 39, z3.If(a == 39, b == 34, b == a)))
    # expected type correspondence
    def idx(nm):
        return S.allnames.index(nm) if nm in S.allnames else -2
    pairs = [("DOUBLE_QUOTED_STRING", "SINGLE_QUOTED_STRING"), ("DOUBLE_QUOTED_HEXCOLOR", "SINGLE_QUOTED_HEXCOLOR")]
    mapped = ty1
    for d, q in pairs:
        mapped = z3.If(ty1 == idx(d), z3.IntVal(idx(q)), z3.If(ty1 == idx(q), z3.IntVal(idx(d)), mapped))
    # terminals that mention only one of the two quote characters are asymmetric by design (word lists inside { }); exclude texts
    # whose token is one of them if the state accepts them
    asym = [nm for nm in ("UNQUOTED_STRING_SPACE",) if nm in S.allnames]
    excl = z3.Or([z3.Or(ty1 == idx(nm), ty2 == idx(nm)) for nm in asym]) if asym else z3.BoolVal(False)
    s.push()
    s.add(z3.Not(excl), z3.Not(z3.And(ok1 == ok2, z3.Implies(ok1, z3.And(ty2 == mapped, end1 == end2)))))
    r = str(s.check())
    if r == "sat":
        mo = s.model()
        n = mo.eval(m1.n, model_completion=True).as_long()
        w1 = "".join(chr(mo.eval(m1.x[j], model_completion=True).as_long()) for j in range(n))
        w2 = w1.translate({34: 39, 39: 34})
        import os
        verif = os.path.dirname(os.path.dirname(os.path.abspath(__file__)))
        code = f'''# replay on the real scanner: the two quote styles of one text
import sys
sys.path.insert(0, {verif!r})
from engine import lexmodel
S = lexmodel.scanner({ctx!r})
a, b = S.real({w1!r}), S.real({w2!r})
print({w1!r}, "->", a)
print({w2!r}, "->", b)
swap = {{"DOUBLE_QUOTED_STRING": "SINGLE_QUOTED_STRING", "SINGLE_QUOTED_STRING": "DOUBLE_QUOTED_STRING", "DOUBLE_QUOTED_HEXCOLOR": "SINGLE_QUOTED_HEXCOLOR", "SINGLE_QUOTED_HEXCOLOR": "DOUBLE_QUOTED_HEXCOLOR"}}
same = (a is None and b is None) or (a is not None and b is not None and swap.get(a[0], a[0]) == b[0] and a[1] == b[1])
sys.exit(0 if same else 1)
'''
        return _res(t0, 1, verdict="CEX", detail=f"quote style changes the token: {w1!r} -> {S.real(w1)} but {w2!r} -> {S.real(w2)}", cex={"text": w1}, replay_code=code)
    s.pop()
    s.add(ok1, z3.Or(ty1 == idx("DOUBLE_QUOTED_HEXCOLOR"), ty1 == idx("SINGLE_QUOTED_HEXCOLOR")), end1 >= 9)
    tw = str(s.check())
    if r == "unsat" and tw == "sat":
        mo = s.model()
        n = mo.eval(m1.n).as_long()
        return _res(t0, 2, verdict="PROVED-IN-BOUND", detail="unsat", witness="".join(chr(mo.eval(m1.x[j], model_completion=True).as_long()) for j in range(n)))
    return _res(t0, 2, verdict="INCONCLUSIVE", detail=f"solver {r}, twin {tw}")


# ---------------------------------------------------------------------------------------------------------------------
# C11: no terminal backtracks catastrophically
# ---------------------------------------------------------------------------------------------------------------------

BT_REPLAY = '''# replay: time the real regular expression of terminal %(name)s on the witness, stretched
import re, sys, time
rx = re.compile(%(rx)r)
w = %(w)r
mid = w[len(w) // 2] if w else "a"
n = len(w)
while n <= 4096:
    text = w[: len(w) // 2] + mid * (n - len(w)) + w[len(w) // 2:]
    t0 = time.time()
    rx.match(text)
    dt = time.time() - t0
    print("length", len(text), "match time %%.3fs" %% dt)
    if dt > 2.0:
        print("catastrophic backtracking: the scanner does not answer promptly")
        sys.exit(1)
    n += 4 if n < 64 else n
sys.exit(0)
'''


def lx_backtracking(L=12):
    """for every terminal of the grammar: over all texts of length L, the number of *distinct backtracking paths* CPython's matcher
    can be forced to try (candidates whose conditions hold simultaneously) stays within L*L; an exponential family (nested
    quantifiers that can split one run in many ways) exceeds it.  A witness text is stretched and timed on the real `re`."""
    import z3
    from mappyfile.parser import Parser
    t0 = time.time()
    terms = [(t.name, t.pattern.to_regexp()) for t in Parser().lalr.terminals]
    q = 0
    worst = (0, None)
    for name, rx in terms:
        LL = L
        m = RM(LL)
        m.cap = 20000
        try:
            cands = m.first(rx, 0, whole_to=True)
        except OverflowError:
            cands = None
        if cands is None:
            # the candidate list itself explodes (the grammar's own terminals stay below 1 000 at this length)
            w = _slowest_text(rx)
            return _res(t0, q, verdict="CEX", detail=f"terminal {name}: more than 20000 backtracking candidates at length {LL}", cex={"terminal": name, "text": w},
                        replay_code=BT_REPLAY % dict(name=name, rx=rx, w=w))
        total = z3.Sum([z3.If(c, 1, 0) for c, _ in cands]) if cands else z3.IntVal(0)
        s = z3.Solver()
        s.set("timeout", 120000)
        s.add(m.n == LL, total > LL * LL)
        r = str(s.check())
        q += 1
        if r == "sat":
            mo = s.model()
            w = "".join(chr(mo.eval(m.x[j], model_completion=True).as_long()) for j in range(LL))
            return _res(t0, q, verdict="CEX", detail=f"terminal {name}: {mo.eval(total)} simultaneous backtracking paths on a text of length {LL}", cex={"terminal": name, "text": w},
                        replay_code=BT_REPLAY % dict(name=name, rx=rx, w=w))
        if r != "unsat":
            return _res(t0, q, verdict="INCONCLUSIVE", detail=f"{name}: {r}")
        worst = max(worst, (len(cands), name))
    return _res(t0, q, verdict="PROVED-IN-BOUND", detail=f"unsat x{q}", witness={"terminals": len(terms), "largest_candidate_list": worst})


def _slowest_text(rx):
    import itertools
    import time as _t
    alpha = sorted(set(ch for ch in rx if ch.isprintable() and ch not in "()[]{}|?*+^$.")) or ["a"]
    alpha = (alpha + ['a', '"', "'", "\\"])[:6]
    best = ("", 0.0)
    for first in ['"', "'", "/", "`", "a", "#", "%"]:
        for ch in alpha:
            w = first + ch * 22
            t0 = _t.time()
            re.compile(rx).match(w)
            dt = _t.time() - t0
            if dt > best[1]:
                best = (w, dt)
            if dt > 0.5:
                return w[:14]
    return best[0][:14]
