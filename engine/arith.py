"""E-ARITH: arithmetic kernels translated from /repo's AST to SMT (DESIGN §2.5)."""
from __future__ import annotations

import ast
import os
import time

REPO = os.environ.get("VF_REPO", "/repo")


def _func(path, name, cls=None):
    tree = ast.parse(open(os.path.join(REPO, path)).read())
    for node in ast.walk(tree):
        if isinstance(node, ast.FunctionDef) and node.name == name:
            return node
    raise KeyError(name)


def _exit_expr():
    fn = _func("mappyfile/cli.py", "validate")
    exits = [n for n in ast.walk(fn) if isinstance(n, ast.Call) and isinstance(n.func, ast.Attribute) and n.func.attr == "exit"
             and isinstance(n.func.value, ast.Name) and n.func.value.id == "sys"]
    if not exits:
        raise RuntimeError("cli.validate no longer calls sys.exit: encoding cannot be built")
    last = max(exits, key=lambda n: n.lineno)
    if len(last.args) != 1:
        raise RuntimeError("sys.exit without a single argument")
    names = {n.id for n in ast.walk(last.args[0]) if isinstance(n, ast.Name)}
    if not names <= {"errors", "min", "max", "int", "abs", "bool"}:
        raise RuntimeError(f"unsupported names in exit expression: {names}")
    return last.args[0]


def exit_status_fn():
    """the exit expression of cli.validate as a Python callable of the error count"""
    code = compile(ast.Expression(_exit_expr()), "<cli.validate exit expression>", "eval")
    return lambda errors: eval(code, {"min": min, "max": max, "int": int, "abs": abs, "bool": bool}, {"errors": errors})


def _z(node, env, z3):
    if isinstance(node, ast.Name):
        return env[node.id]
    if isinstance(node, ast.Constant) and isinstance(node.value, bool):
        return z3.IntVal(1 if node.value else 0)
    if isinstance(node, ast.Constant) and isinstance(node.value, int):
        return z3.IntVal(node.value)
    if isinstance(node, ast.Call) and isinstance(node.func, ast.Name) and node.func.id in ("min", "max") and len(node.args) == 2:
        a, b = _z(node.args[0], env, z3), _z(node.args[1], env, z3)
        return z3.If(a <= b, a, b) if node.func.id == "min" else z3.If(a >= b, a, b)
    if isinstance(node, ast.Call) and isinstance(node.func, ast.Name) and node.func.id == "int" and len(node.args) == 1:
        return _z(node.args[0], env, z3)
    if isinstance(node, ast.BinOp):
        a, b = _z(node.left, env, z3), _z(node.right, env, z3)
        if isinstance(node.op, ast.Add):
            return a + b
        if isinstance(node.op, ast.Sub):
            return a - b
        if isinstance(node.op, ast.Mult):
            return a * b
        if isinstance(node.op, ast.Mod):
            return a % b          # z3 Int mod: non-negative for positive divisor, as Python's
        if isinstance(node.op, ast.BitAnd) and isinstance(node.right, ast.Constant) and node.right.value in (0xFF, 0x7F):
            return a % (node.right.value + 1)
    if isinstance(node, ast.IfExp):
        return z3.If(_zb(node.test, env, z3), _z(node.body, env, z3), _z(node.orelse, env, z3))
    raise NotImplementedError(ast.dump(node))


def _zb(node, env, z3):
    if isinstance(node, ast.Compare) and len(node.ops) == 1:
        a, b = _z(node.left, env, z3), _z(node.comparators[0], env, z3)
        op = node.ops[0]
        return {ast.Lt: a < b, ast.LtE: a <= b, ast.Gt: a > b, ast.GtE: a >= b, ast.Eq: a == b, ast.NotEq: a != b}[type(op)]
    return _z(node, env, z3) != 0


EXIT_REPLAY = '''# replay: the real CLI as a subprocess on a generated Mapfile with N validation errors
import subprocess, sys, tempfile, os
N = %d
d = tempfile.mkdtemp()
fn = os.path.join(d, "m.map")
open(fn, "w").write("MAP\\n" + "LAYER NAME 'l' TYPE zz END\\n" * N + "END\\n")
p = subprocess.run(["/venv/bin/mappyfile", "validate", fn], capture_output=True, text=True)
lines = [l for l in p.stdout.split("\\n") if "(Line:" in l]
print("errors reported:", len(lines), "exit status:", p.returncode)
import shutil; shutil.rmtree(d)
bad = (len(lines) == N) and ((p.returncode == 0) != (N == 0) or (N <= 255 and p.returncode != N))
sys.exit(1 if bad else 0)
'''


def exit_status_query():
    import z3
    t0 = time.time()
    try:
        expr = _exit_expr()
        n = z3.Int("n")
        e = _z(expr, {"errors": n}, z3)
    except (NotImplementedError, RuntimeError) as ex:
        return {"verdict": "INCONCLUSIVE", "detail": f"translator: {ex}"}
    byte = e % 256
    prop = z3.And((byte == 0) == (n == 0), z3.Implies(n <= 255, byte == n))
    # translator validation: the compiled expression and the encoding agree on concrete counts
    f = exit_status_fn()
    for k in (0, 1, 2, 100, 255, 256, 257, 511, 512, 65536, 10 ** 6):
        s = z3.Solver()
        s.add(n == k)
        assert s.check() == z3.sat
        if s.model().eval(e).as_long() != f(k):
            return {"verdict": "HARNESS-ERROR", "detail": f"translation disagrees with the code at n={k}"}
    s = z3.Solver()
    s.set("timeout", 120000)
    s.add(n >= 0, n < 2 ** 40, z3.Not(prop))
    r = str(s.check())
    twin = z3.Solver()
    twin.add(n >= 0, n < 2 ** 40, prop, n > 300)
    tw = str(twin.check())
    dt = time.time() - t0
    out = {"solver_s": dt, "queries": 13, "extra": {"expression": ast.unparse(expr)}}
    if r == "unsat" and tw == "sat":
        out.update(verdict="PROVED-IN-BOUND", detail="unsat", witness={"n": twin.model()[n].as_long()})
    elif r == "sat":
        k = s.model()[n].as_long()
        out.update(verdict="CEX", detail=f"exit status byte wrong for n={k}: sys.exit({ast.unparse(expr)})", cex={"n": k}, replay_code=EXIT_REPLAY % k)
    else:
        out.update(verdict="INCONCLUSIVE", detail=f"solver: {r}, twin: {tw}")
    return out


# ---------------------------------------------------------------------------------------------
# compute_aligned_max_indent  (C16-ALIGN)
# ---------------------------------------------------------------------------------------------

class _T:
    """typed translation of a straight-line arithmetic function body: Python int -> BitVec(W) (no overflow within the stated
    ranges: asserted), int / int -> IEEE double (fp.div RNE), int(float) -> fp.to_sbv RTZ"""
    W = 32

    def __init__(self, z3, env):
        self.z3, self.env = z3, dict(env)

    def ex(self, node):
        z3 = self.z3
        if isinstance(node, ast.Name):
            return self.env[node.id]
        if isinstance(node, ast.Attribute) and isinstance(node.value, ast.Name) and node.value.id == "self":
            return self.env["self." + node.attr]
        if isinstance(node, ast.Constant) and isinstance(node.value, int):
            return ("int", z3.BitVecVal(node.value, self.W))
        if isinstance(node, ast.Call) and isinstance(node.func, ast.Name):
            args = [self.ex(a) for a in node.args]
            if node.func.id in ("max", "min") and len(args) == 2 and args[0][0] == args[1][0] == "int":
                a, b = args[0][1], args[1][1]
                return ("int", z3.If(a >= b, a, b) if node.func.id == "max" else z3.If(a <= b, a, b))
            if node.func.id == "int" and len(args) == 1:
                if args[0][0] == "int":
                    return args[0]
                return ("int", z3.fpToSBV(z3.RTZ(), args[0][1], z3.BitVecSort(self.W)))
        if isinstance(node, ast.BinOp):
            a, b = self.ex(node.left), self.ex(node.right)
            if isinstance(node.op, ast.Div):
                fa = a[1] if a[0] == "float" else z3.fpSignedToFP(z3.RNE(), a[1], z3.Float64())
                fb = b[1] if b[0] == "float" else z3.fpSignedToFP(z3.RNE(), b[1], z3.Float64())
                return ("float", z3.fpDiv(z3.RNE(), fa, fb))
            if a[0] == b[0] == "int":
                if isinstance(node.op, ast.Add):
                    return ("int", a[1] + b[1])
                if isinstance(node.op, ast.Sub):
                    return ("int", a[1] - b[1])
                if isinstance(node.op, ast.Mult):
                    return ("int", a[1] * b[1])
                if isinstance(node.op, ast.FloorDiv):
                    return ("int", a[1] / b[1])       # signed bv division; operands are non-negative here
        raise NotImplementedError(ast.dump(node))

    def run(self, fn):
        for st in fn.body:
            if isinstance(st, ast.Expr) and isinstance(st.value, ast.Constant):
                continue      # docstring
            if isinstance(st, ast.Assign) and len(st.targets) == 1 and isinstance(st.targets[0], ast.Name):
                self.env[st.targets[0].id] = self.ex(st.value)
            elif isinstance(st, ast.Return):
                return self.ex(st.value)
            else:
                raise NotImplementedError(ast.dump(st))
        raise NotImplementedError("no return")


def align_query(amax=1023, kmax=64):
    import z3
    t0 = time.time()
    fn = _func("mappyfile/pprint.py", "compute_aligned_max_indent")
    a = z3.BitVec("a", 32)
    k = z3.BitVec("k", 32)
    try:
        kind, res = _T(z3, {"max_key_length": ("int", a), "self.indent": ("int", k)}).run(fn)
    except NotImplementedError as ex:
        return {"verdict": "INCONCLUSIVE", "detail": f"translator met an unsupported construct: {ex}"}
    if kind != "int":
        return {"verdict": "INCONCLUSIVE", "detail": "result is not an int"}
    # translator validation against the real method on concrete inputs
    from mappyfile.pprint import PrettyPrinter
    for (ca, ck) in [(0, 0), (0, 1), (5, 4), (8, 4), (7, 0), (13, 3), (1023, 64), (63, 8), (64, 8), (11, 12), (10, 5), (999, 7)]:
        if ca > amax or ck > kmax:
            continue
        pp = PrettyPrinter.__new__(PrettyPrinter)
        pp.indent = ck
        want = pp.compute_aligned_max_indent(ca)
        s = z3.Solver()
        s.add(a == ca, k == ck)
        assert s.check() == z3.sat
        got = s.model().eval(res).as_signed_long()
        if got != want:
            return {"verdict": "HARNESS-ERROR", "detail": f"translation disagrees with the real method at ({ca},{ck}): {got} != {want}"}
    I = z3.If(k >= 1, k, z3.BitVecVal(1, 32))
    dom = z3.And(a >= 0, a <= amax, k >= 0, k <= kmax)
    prop = z3.And(z3.URem(res, I) == 0, res > a, res - I <= a)
    s = z3.Solver()
    s.set("timeout", 400000)
    s.add(dom, z3.Not(prop))
    r = str(s.check())
    tw = z3.Solver()
    tw.add(dom, prop, a > 20, k > 2)
    t = str(tw.check())
    dt = time.time() - t0
    out = {"solver_s": dt, "queries": 14, "extra": {"source": ast.unparse(fn.body[-1])}}
    if r == "unsat" and t == "sat":
        m = tw.model()
        out.update(verdict="PROVED-IN-BOUND", detail="unsat", witness={"a": m[a].as_long(), "k": m[k].as_long()})
    elif r == "sat":
        m = s.model()
        ca, ck = m[a].as_long(), m[k].as_long()
        code = f'''# replay: the real compute_aligned_max_indent
import sys
from mappyfile.pprint import PrettyPrinter
pp = PrettyPrinter(indent={ck})
got = pp.compute_aligned_max_indent({ca})
I = max(1, {ck})
print("key length {ca} indent {ck} ->", got)
sys.exit(0 if (got % I == 0 and got > {ca} and got - I <= {ca}) else 1)
'''
        out.update(verdict="CEX", detail=f"alignment column wrong for key length {ca}, indent {ck}", cex={"a": ca, "k": ck}, replay_code=code)
    else:
        out.update(verdict="INCONCLUSIVE", detail=f"solver: {r}, twin: {t}")
    return out
