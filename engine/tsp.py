"""Template-symbolic pipeline (DESIGN §2.2): the real lexer runs concretely on a skeleton text; the
values of designated *hole* tokens are replaced by symbolic values of the same lexical class; the
real interactive parse loop, LALR tables, transformer and printer then run under CrossHair.
Imported by generated harnesses."""
from __future__ import annotations

from mappyfile.parser import Parser
from mappyfile.transformer import MapfileToDict
from mappyfile.pprint import PrettyPrinter


def walk(x):
    if isinstance(x, dict):
        for v in x.values():
            walk(v)
    elif isinstance(x, list):
        for v in x:
            walk(v)


class HoleLexer:
    """forwards the real lexer's tokens; a token whose text is a hole marker gets the hole's value;
    optional symbolic positions by token index"""

    def __init__(self, real, holes=None, pos=None):
        self.real, self.holes, self.pos = real, holes or {}, pos or {}

    def lex(self, lexer_state, parser_state):
        i = 0
        for tok in self.real.lex(lexer_state, parser_state):
            h = self.holes.get(tok.value)
            if h is not None:
                tok.value = h
            p = self.pos.get(i)
            if p is not None:
                tok.line, tok.column = p
            i += 1
            yield tok


class Pipe:
    def __init__(self, **popts):
        self.P = Parser(**popts)
        self.front = self.P.lalr.parser
        self.real = self.front.lexer

    def parse(self, text, holes=None, pos=None, comments=None):
        self.front.lexer = HoleLexer(self.real, holes, pos)
        P = self.P
        patched = False
        if comments:
            orig = P._assign_comments
            state = {"done": False}

            def sub(tree):
                if not state["done"]:
                    state["done"] = True
                    for k in list(P.comments_dict.keys()):
                        if P.comments_dict[k] in comments:
                            P.comments_dict[k] = comments[P.comments_dict[k]]
                return orig(tree)

            P._assign_comments = sub
            patched = True
        try:
            return P.parse(text)
        finally:
            self.front.lexer = self.real
            if patched:
                del P._assign_comments


_PIPES = {}


def pipe(**popts):
    key = tuple(sorted(popts.items()))
    if key not in _PIPES:
        _PIPES[key] = Pipe(**popts)
    return _PIPES[key]


def printer(types=(), **opts):
    pp = PrettyPrinter(**opts)
    for t in types:
        walk(pp.validator.get_expanded_schema(t))   # resolve JsonRef proxies outside tracing
    return pp


ALL_TYPES = ("class", "cluster", "composite", "feature", "grid", "join", "label", "layer", "leader", "legend", "map",
             "outputformat", "querymap", "reference", "scalebar", "scaletoken", "style", "symbol", "web")


def plain(x):
    """hidden keys stripped, containers made plain, for content comparison"""
    if isinstance(x, dict):
        return [(k, plain(v)) for k, v in x.items() if not (k.startswith("__") and k.endswith("__") and k != "__type__")]
    if isinstance(x, (list, tuple)):
        return [plain(v) for v in x]
    return x


def plain_dict(x):
    """deep copy of a loaded dict without the __comments__ bookkeeping (positions kept), for layout comparisons"""
    from mappyfile.ordereddict import CaseInsensitiveOrderedDict as CI
    if isinstance(x, dict):
        d = CI(CI)
        for k, v in x.items():
            if k == "__comments__":
                continue
            d[k] = plain_dict(v)
        return d
    if isinstance(x, list):
        return [plain_dict(v) for v in x]
    return x
