"""Subprocess entry for SMT obligations: python -m engine.zrun <module> <func> '<json kwargs>'.
The callable returns a dict {verdict, detail, cex, witness, solver_s, queries, replay_code, extra};
it is printed as the last stdout line."""
import importlib, json, sys, traceback

if __name__ == "__main__":
    mod, fn, kw = sys.argv[1], sys.argv[2], json.loads(sys.argv[3])
    try:
        res = getattr(importlib.import_module(mod), fn)(**kw)
    except Exception:
        traceback.print_exc()
        sys.exit(3)
    print(json.dumps(res, default=str))
