"""Obligation runner for the solver-based checks (see DESIGN.md §1, §2.1).

An *obligation* is one solver question about /repo's current code:

* kind "ch":  a generated CrossHair harness (module source + function name).  CrossHair (z3)
              explores every path of the harness within the stated bounds; verdicts are
              PROVED ("Confirmed over all paths"), CEX, INCONCLUSIVE.  Each harness has a
              reachability twin (``post: not _``) that must yield a witness.
* kind "z3":  a Python callable executed in a subprocess that builds an SMT encoding from
              /repo's live objects (grammar, parse table, AST, schemas) and returns a verdict.

Every CEX is replayed in a plain interpreter (no CrossHair) against the real code before it
is reported; only reproduced ones become VIOLATION / KNOWN-FINDING.
"""
from __future__ import annotations

import ast
import concurrent.futures as cf
import dataclasses
import fnmatch
import hashlib
import json
import os
import re
import shutil
import subprocess
import sys
import tempfile
import time
from typing import Any

VERIF = os.path.dirname(os.path.dirname(os.path.abspath(__file__)))
REPO = os.environ.get("VF_REPO", "/repo")
PY = os.path.join(VERIF, ".venv", "bin", "python")
CROSSHAIR = os.path.join(VERIF, ".venv", "bin", "crosshair")
NCPU = int(os.environ.get("VF_JOBS", "16"))

PROVED, CEX, INCONCLUSIVE, VACUOUS, ERROR = "PROVED-IN-BOUND", "CEX", "INCONCLUSIVE", "VACUOUS", "HARNESS-ERROR"


@dataclasses.dataclass
class Ob:
    name: str
    kind: str = "ch"                      # "ch" | "z3"
    source: str = ""                      # ch: harness module source
    func: str = "h"                       # ch: function to check
    pct: int = 120                        # ch: --per_condition_timeout
    ppt: int = 100                        # ch: --per_path_timeout
    twin: bool = True                     # ch: run the reachability twin
    z3_call: tuple | None = None          # z3: (module, function, kwargs)
    timeout: int = 600                    # wall limit for the subprocess
    meta: dict = dataclasses.field(default_factory=dict)  # bounds, functions, stubs, desc
    expect_cex: bool = False              # finding probes: a CEX is the expected outcome


@dataclasses.dataclass
class Result:
    ob: Ob
    verdict: str
    detail: str = ""
    cex_args: Any = None
    witness: Any = None
    wall_s: float = 0.0
    solver_s: float = 0.0
    queries: int = 0
    paths: int | None = None
    replay_path: str | None = None
    reproduced: bool | None = None
    replay_out: str = ""
    known: str | None = None
    extra: dict = dataclasses.field(default_factory=dict)


# ---------------------------------------------------------------------------------------------
# harness source generation helpers
# ---------------------------------------------------------------------------------------------

HEADER = '''# generated harness -- regenerated from /verif on every run; imports mappyfile from /repo
import sys, os, logging
sys.path.insert(0, %r)
logging.disable(logging.CRITICAL)   # logging is not the subject: a disabled logger returns before time.time()/formatting (nondeterministic under CrossHair)
''' % VERIF


def harness(func: str, params: list[tuple[str, str]], pre: str, body: str, raises: str = "") -> str:
    """Source of a harness function ``func`` (returns True iff the property holds on this input)
    and of its reachability twin ``func__reach`` (a counterexample to ``post: not _`` is a witness
    that the end of the harness is reachable with the property holding)."""
    sig = ", ".join(f"{n}: {t}" for n, t in params)
    names = ", ".join(n for n, _ in params)
    pre_line = f"    pre: {pre}\n" if pre else ""
    raises_line = f"    raises: {raises}\n" if raises else ""
    ind = "\n".join(("    " + ln) if ln.strip() else ln for ln in body.strip("\n").split("\n"))
    return f'''
def {func}({sig}) -> bool:
    """
{pre_line}{raises_line}    post: _
    """
{ind}


def {func}__reach({sig}) -> bool:
    """
{pre_line}    post: not _
    """
    return {func}({names})
'''


def chars(prefix: str, n: int) -> list[tuple[str, str]]:
    return [(f"{prefix}{i}", "int") for i in range(n)]


def chr_expr(prefix: str, n: int) -> str:
    return " + ".join(f"chr({prefix}{i})" for i in range(n)) if n else "''"


def conj(parts: list[str]) -> str:
    parts = [p for p in parts if p]
    return " & ".join(f"({p})" for p in parts) if parts else "True"


# ---------------------------------------------------------------------------------------------
# known findings
# ---------------------------------------------------------------------------------------------

class Known:
    def __init__(self):
        p = os.path.join(VERIF, "known_findings.json")
        self.data = json.load(open(p)) if os.path.exists(p) else {"findings": [], "fixed": []}

    def open_for(self, prop: str) -> list[dict]:
        return [f for f in self.data.get("findings", []) if f["property"] == prop]

    def has(self, fid: str) -> bool:
        return any(f["id"] == fid for f in self.data.get("findings", []))

    def match(self, prop: str, obname: str, signature: str) -> dict | None:
        for f in self.open_for(prop):
            if not fnmatch.fnmatch(obname, f.get("obligation", "*")):
                continue
            rx = f.get("cex_regex")
            if rx and not re.search(rx, signature, re.S):
                continue
            return f
        return None


# ---------------------------------------------------------------------------------------------
# running one obligation
# ---------------------------------------------------------------------------------------------

_RX_CEX = re.compile(r":(\d+): error: (.*?) when calling (\w+)\((.*)\)\s*$", re.S)
_RX_RET = re.compile(r" \(which returns .*\)\s*$", re.S)


def _line_of(source: str, func: str) -> int:
    for i, ln in enumerate(source.split("\n"), 1):
        if ln.startswith(f"def {func}("):
            return i + 1
    raise KeyError(func)


def _parse_args(argtext: str):
    try:
        node = ast.parse(f"f({argtext})", mode="eval").body
        args = [ast.literal_eval(a) for a in node.args]
        kwargs = {k.arg: ast.literal_eval(k.value) for k in node.keywords}
        return args, kwargs
    except Exception:
        return None


def _run(cmd, timeout, env=None, cwd=None):
    t0 = time.time()
    try:
        p = subprocess.run(cmd, capture_output=True, text=True, timeout=timeout, env=env, cwd=cwd)
        return p.returncode, p.stdout, p.stderr, time.time() - t0
    except subprocess.TimeoutExpired as ex:
        out = ex.stdout.decode() if isinstance(ex.stdout, bytes) else (ex.stdout or "")
        return -9, out, "TIMEOUT", time.time() - t0


def _env():
    env = dict(os.environ)
    env["PYTHONPATH"] = VERIF + os.pathsep + env.get("PYTHONPATH", "")
    env["PYTHONHASHSEED"] = "0"
    env.pop("MAPPYFILE_VERIF", None)
    env["MAPPYFILE_USE_CYTHON"] = "False"
    return env


def run_crosshair(path: str, source: str, func: str, pct: int, ppt: int, wall: int):
    line = _line_of(source, func)
    cmd = [CROSSHAIR, "check", "--report_all", "--per_condition_timeout", str(pct),
           "--per_path_timeout", str(ppt), f"{path}:{line}"]
    rc, out, err, dt = _run(cmd, wall, env=_env())
    text = (out or "").strip()
    if "Confirmed over all paths" in text:
        return PROVED, text, None, dt
    m = None
    for ln in text.split("\n"):
        m = _RX_CEX.search(_RX_RET.sub("", ln)) or m
    if m is None and " when calling " in text and ": error: " in text:
        # exception messages may span several lines (lark's "Expected one of ..."): take the last call on the last line
        head, _, tail = text.rpartition(" when calling ")
        m2 = re.match(r"(\w+)\((.*)\)\s*$", _RX_RET.sub("", tail.strip().split("\n")[-1]) if "\n" in tail.strip() else _RX_RET.sub("", tail.strip()))
        if m2:
            return CEX, head.split(": error: ", 1)[-1][:400], m2.group(2), dt
    if m:
        return CEX, m.group(2), m.group(4), dt
    if rc == -9:
        return INCONCLUSIVE, "wall timeout", None, dt
    if rc not in (0, 1) or "Traceback" in (err or ""):
        return ERROR, (text + "\n" + (err or ""))[-1500:], None, dt
    return INCONCLUSIVE, text[-500:] or (err or "")[-500:], None, dt


REPLAY_MAIN = '''

if __name__ == "__main__":
    import traceback
    _args, _kwargs = %r, %r
    try:
        _r = %s(*_args, **_kwargs)
    except Exception:
        traceback.print_exc()
        print("REPLAY: harness raised -> violation reproduced")
        sys.exit(1)
    if _r:
        print("REPLAY: property held on this input (counterexample NOT reproduced)")
        sys.exit(0)
    print("REPLAY: property violated on this input (reproduced)")
    sys.exit(1)
'''


def write_replay(prop: str, ob: Ob, args, kwargs) -> str:
    d = os.path.join(os.environ.get("VF_REPLAY_DIR", os.path.join(VERIF, "replays")), prop)
    os.makedirs(d, exist_ok=True)
    p = os.path.join(d, re.sub(r"[^A-Za-z0-9_.-]", "_", ob.name) + ".py")
    with open(p, "w") as f:
        f.write(ob.source + REPLAY_MAIN % (args, kwargs, ob.func))
    return p


def run_replay(path: str) -> tuple[bool, str]:
    rc, out, err, _ = _run([PY, path], 300, env=_env())
    return rc == 1, ((out or "") + (err or ""))[-3000:]


def run_ob(prop: str, ob: Ob, scratch: str) -> Result:
    t0 = time.time()
    if ob.kind == "z3":
        mod, fn, kwargs = ob.z3_call
        cmd = [PY, "-m", "engine.zrun", mod, fn, json.dumps(kwargs)]
        rc, out, err, dt = _run(cmd, ob.timeout, env=_env(), cwd=VERIF)
        res = None
        for ln in reversed((out or "").strip().split("\n")):
            if ln.startswith("{"):
                try:
                    res = json.loads(ln)
                    break
                except Exception:
                    pass
        if res is None:
            v = INCONCLUSIVE if rc == -9 else ERROR
            return Result(ob, v, detail=("wall timeout" if rc == -9 else ((out or "") + (err or ""))[-1500:]), wall_s=dt)
        r = Result(ob, res["verdict"], detail=res.get("detail", ""), witness=res.get("witness"),
                   wall_s=dt, solver_s=res.get("solver_s", 0.0), queries=res.get("queries", 0),
                   extra=res.get("extra", {}))
        if r.verdict == CEX:
            r.cex_args = res.get("cex")
            code = res.get("replay_code")
            if code:
                d = os.path.join(os.environ.get("VF_REPLAY_DIR", os.path.join(VERIF, "replays")), prop)
                os.makedirs(d, exist_ok=True)
                p = os.path.join(d, re.sub(r"[^A-Za-z0-9_.-]", "_", ob.name) + ".py")
                open(p, "w").write(code)
                r.replay_path = p
                r.reproduced, r.replay_out = run_replay(p)
            else:
                r.reproduced = False
                r.replay_out = "no replay produced"
        return r

    path = os.path.join(scratch, re.sub(r"[^A-Za-z0-9_]", "_", ob.name) + ".py")
    with open(path, "w") as f:
        f.write(ob.source)
    wall = ob.timeout
    verdict, detail, argtext, dt = run_crosshair(path, ob.source, ob.func, ob.pct, ob.ppt, wall)
    r = Result(ob, verdict, detail=detail, wall_s=dt, solver_s=dt, queries=1)
    if verdict == CEX:
        parsed = _parse_args(argtext)
        r.cex_args = argtext
        if parsed is None:
            r.verdict, r.detail = INCONCLUSIVE, f"counterexample not replayable: {argtext!r} ({detail})"
        else:
            r.replay_path = write_replay(prop, ob, parsed[0], parsed[1])
            r.reproduced, r.replay_out = run_replay(r.replay_path)
            if not r.reproduced:
                r.verdict = INCONCLUSIVE
                r.detail = f"CrossHair counterexample {ob.func}({argtext}) did not reproduce in plain CPython"
                try:
                    os.remove(r.replay_path)
                except OSError:
                    pass
                r.replay_path = None
    return r


def run_twin(prop: str, ob: Ob, scratch: str):
    """reachability twin; its witness is additionally executed on the main harness in a plain interpreter: CrossHair models some
    library behaviour differently from CPython (it disables functools.lru_cache, has its own `re`), so a harness that is
    "confirmed" symbolically but fails concretely on the witness is a reproduced violation, not a pass"""
    path = os.path.join(scratch, re.sub(r"[^A-Za-z0-9_]", "_", ob.name) + "__twin.py")
    with open(path, "w") as f:
        f.write(ob.source)
    verdict, detail, argtext, dt = run_crosshair(path, ob.source, ob.func + "__reach", ob.pct, ob.ppt, ob.timeout)
    if verdict == CEX:
        parsed = _parse_args(argtext)
        if parsed is not None:
            wpath = os.path.join(scratch, re.sub(r"[^A-Za-z0-9_]", "_", ob.name) + "__witness.py")
            with open(wpath, "w") as f:
                f.write(ob.source + REPLAY_MAIN % (parsed[0], parsed[1], ob.func))
            failed, out = run_replay(wpath)
            if failed:
                return True, argtext, dt, (parsed, out)
        return True, argtext, dt, None
    return False, f"{verdict}: {detail}"[:300], dt, None


# ---------------------------------------------------------------------------------------------
# the check driver
# ---------------------------------------------------------------------------------------------

def src_hash(relpaths: list[str]) -> dict:
    out = {}
    for rp in relpaths:
        p = os.path.join(REPO, rp)
        try:
            out[rp] = hashlib.sha256(open(p, "rb").read()).hexdigest()[:16]
        except OSError:
            out[rp] = "missing"
    return out


def run_check(prop: str, tier: str, seed: int, obs: list[Ob], info: dict) -> int:
    """Run all obligations, write evidence, print VIOLATION/KNOWN-FINDING lines, return exit code."""
    t0 = time.time()
    known = Known()
    scratch = tempfile.mkdtemp(prefix=f"vf_{prop}_")
    results: list[Result] = []
    twins: dict[str, tuple] = {}
    # deterministic shuffle of scheduling order only
    import random
    rnd = random.Random(seed)
    order = list(obs)
    rnd.shuffle(order)
    order.sort(key=lambda o: -o.timeout)  # long ones first
    try:
        with cf.ThreadPoolExecutor(max_workers=NCPU) as ex:
            futs = {}
            for ob in order:
                futs[ex.submit(run_ob, prop, ob, scratch)] = ("main", ob)
                if ob.kind == "ch" and ob.twin and not ob.expect_cex:
                    futs[ex.submit(run_twin, prop, ob, scratch)] = ("twin", ob)
            for fu in cf.as_completed(futs):
                kind, ob = futs[fu]
                try:
                    val = fu.result()
                except Exception as exn:  # harness infrastructure failure
                    val = Result(ob, ERROR, detail=repr(exn)) if kind == "main" else (False, repr(exn), 0.0, None)
                if kind == "main":
                    results.append(val)
                else:
                    twins[ob.name] = val
    finally:
        shutil.rmtree(scratch, ignore_errors=True)

    results.sort(key=lambda r: r.ob.name)
    violations, known_hits, errors = [], [], []
    proved = inconclusive = 0
    for r in results:
        if r.ob.kind == "ch" and r.ob.twin and not r.ob.expect_cex and r.verdict == PROVED:
            ok, wit, dt, concrete_fail = twins.get(r.ob.name, (False, "twin missing", 0.0, None))
            r.solver_s += dt
            r.queries += 1
            if ok and concrete_fail is not None:
                # symbolically confirmed, but the witness fails on the real interpreter: a reproduced counterexample
                parsed, out = concrete_fail
                r.verdict, r.cex_args, r.reproduced, r.replay_out = CEX, wit, True, out
                r.detail = "harness fails in plain CPython on the twin's witness (behaviour CrossHair models differently, e.g. caches)"
                r.replay_path = write_replay(prop, r.ob, parsed[0], parsed[1])
            elif ok:
                r.witness = wit
            else:
                r.verdict, r.detail = VACUOUS, f"reachability twin found no witness ({wit})"
        if r.verdict == PROVED:
            proved += 1
        elif r.verdict == CEX and r.reproduced:
            sig = f"{r.detail}\n{r.cex_args}\n{r.replay_out}"
            kf = known.match(prop, r.ob.name, sig)
            if kf:
                r.known = kf["id"]
                known_hits.append((r, kf))
            else:
                violations.append(r)
        elif r.verdict == CEX:
            r.verdict = INCONCLUSIVE
            r.detail = f"counterexample did not reproduce: {r.replay_out[-300:]}"
            inconclusive += 1
        elif r.verdict == ERROR:
            errors.append(r)
        else:
            inconclusive += 1

    for r, kf in known_hits:
        print(f"KNOWN-FINDING: property={prop} {kf['id']}: {kf['what']} [obligation {r.ob.name}]")
    for r in violations:
        print(f"VIOLATION property={prop} replay={r.replay_path}")
        print(f"  obligation {r.ob.name}: {r.detail} :: {r.cex_args}")
        tail = (r.replay_out or "").strip().split("\n")[-6:]
        for ln in tail:
            print("    | " + ln)
    for r in errors:
        print(f"HARNESS-ERROR obligation {r.ob.name}: {r.detail[-800:]}", file=sys.stderr)
    for r in results:
        if r.verdict in (INCONCLUSIVE, VACUOUS):
            print(f"inconclusive: {r.ob.name}: {r.verdict} {r.detail[:200]}")

    wall = time.time() - t0
    n = len(results)
    samples = []
    for r in results[:]:
        if len(samples) >= 12:
            break
        samples.append({"obligation": r.ob.name, "kind": r.ob.kind, "verdict": r.verdict,
                        "bounds": r.ob.meta.get("bounds"), "witness": r.witness,
                        "desc": r.ob.meta.get("desc"), "wall_s": round(r.wall_s, 1)})
    funcs = sorted({f for r in results for f in r.ob.meta.get("functions", [])} | set(info.get("functions", [])))
    stubs = sorted({s for r in results for s in r.ob.meta.get("stubs", [])} | set(info.get("stubs", [])))
    ev = {
        "property_id": prop,
        "tier": tier,
        "seed": seed,
        "level": "other",
        "coverage": {
            "explanation": info.get("explanation", "") + " Deciding step: CrossHair 0.0.110 (z3) symbolic execution of the real functions "
            "per obligation ('Confirmed over all paths' within the per-path/per-condition budgets) or z3/cvc5 "
            "queries generated from /repo's live grammar/tables/AST; every counterexample is replayed in plain CPython "
            "before being reported; inconclusive obligations are never counted as held.",
            "obligations": n,
            "discharged": proved,
            "inconclusive": inconclusive,
            "known_findings_hit": [kf["id"] for _, kf in known_hits],
            "violations": [r.ob.name for r in violations],
            "harness_errors": [r.ob.name for r in errors],
            "evaluations": n,
            "distinct_nontrivial": sum(1 for r in results if r.verdict == PROVED and (r.witness is not None or r.ob.kind == "z3")),
            "rule": "one evaluation = one solver-decided obligation (CrossHair condition or SMT query family) over symbolic inputs within "
                    "the stated bounds; non-trivial = verdict PROVED-IN-BOUND and its vacuity twin produced a concrete witness",
            "samples": samples,
            "functions_encoded": funcs,
            "source_hashes": src_hash(info.get("files", [])),
            "bounds": info.get("bounds", {}),
            "stubs": stubs,
            "outside_claim": info.get("outside", []),
            "queries": sum(r.queries for r in results),
            "solver_s": round(sum(r.solver_s for r in results), 1),
            "checker_cmd": f"./vf check {prop} --tier {tier}",
            "trusted_base": ["CPython 3.12", "lark 1.3.1 LALR driver / line counter", "jsonschema, referencing, jsonref",
                             "CrossHair 0.0.110 + z3 5.1.0 (bounded, heuristic)", "the E-* translators as validated on this run"],
            "per_obligation": [{"name": r.ob.name, "verdict": r.verdict, "wall_s": round(r.wall_s, 1),
                                "known": r.known, "detail": (r.detail or "")[:160]} for r in results],
        },
        "assumptions": info.get("assumptions", []),
        "wall_s": round(wall, 1),
        "violations": len(violations),
    }
    evdir = os.environ.get("VF_EVIDENCE_DIR", os.path.join(VERIF, "evidence"))      # (redirected only when trying seeded changes in scratch worktrees)
    os.makedirs(evdir, exist_ok=True)
    with open(os.path.join(evdir, f"{prop}.json"), "w") as f:
        json.dump(ev, f, indent=1, default=str)
    print(f"{prop} [{tier}] obligations={n} proved={proved} inconclusive={inconclusive} "
          f"known={len(known_hits)} violations={len(violations)} errors={len(errors)} wall={wall:.0f}s")
    if violations:
        return 1
    if errors:
        return 3
    return 0
