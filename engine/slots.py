"""Keyword slots regenerated from /repo/mappyfile/schemas/*.json on every run.

A *slot* is (object type, keyword, leaf value alternative).  For each slot we produce a
representative "written the way MapServer writes that alternative" (``text``), the Python value
``loads`` is documented to give for it (``value``) and a ``kind`` naming the lexical class.
Used by C01/C02/C03/C07/C19 to build skeletons and obligations.
"""
from __future__ import annotations

import json
import os

REPO = os.environ.get("VF_REPO", "/repo")
SCHEMAS = os.path.join(REPO, "mappyfile", "schemas")

KV_BLOCKS = ("metadata", "validation", "values", "connectionoptions")
REPEATED = ("processing", "formatoption", "include", "compfilter")
SPECIAL = ("projection", "points", "pattern", "config") + KV_BLOCKS


def resolve(x):
    """force JsonRef proxies (outside of CrossHair tracing)"""
    if isinstance(x, dict):
        return {k: resolve(v) for k, v in x.items()}
    if isinstance(x, list):
        return [resolve(v) for v in x]
    return x


def object_types():
    out = []
    for f in sorted(os.listdir(SCHEMAS)):
        if not f.endswith(".json"):
            continue
        s = json.load(open(os.path.join(SCHEMAS, f)))
        if isinstance(s, dict) and "__type__" in s.get("properties", {}):
            out.append(f[:-5])
    return out


def expanded(type_):
    from mappyfile.validator import Validator
    return resolve(Validator().get_expanded_schema(type_))


def leaves(p, inherited=None):
    """flatten oneOf / anyOf / allOf into leaf alternatives (dicts without combinators)"""
    inherited = dict(inherited or {})
    own = {k: v for k, v in p.items() if k not in ("oneOf", "anyOf", "allOf", "metadata", "default", "description", "example")}
    desc = p.get("description")
    combos = [k for k in ("oneOf", "anyOf", "allOf") if k in p]
    if not combos:
        leaf = dict(inherited)
        leaf.update(own)
        if desc:
            leaf["description"] = desc
        if "metadata" in p:
            leaf["metadata"] = p["metadata"]
        return [leaf]
    out = []
    inh = dict(inherited)
    inh.update(own)
    for c in combos:
        for alt in p[c]:
            out += leaves(alt, inh)
    return out


def _num(leaf, integer):
    cands = [1, 10, 0, 100, 5, -1, 255, 2, 50, 360, 1000, 7] if integer else [1.5, 10.5, 0.5, 100.5, 5.5, -0.5, 2.5, 1, 10, 0, 50.5, 7.5]
    for c in cands:
        if "minimum" in leaf and c < leaf["minimum"]:
            continue
        if "maximum" in leaf and c > leaf["maximum"]:
            continue
        if "exclusiveMinimum" in leaf:
            em = leaf["exclusiveMinimum"]
            if (em is True and c <= leaf.get("minimum", c - 1)) or (em is not True and c <= em):
                continue
        return c
    return None


def _fmt(n):
    return repr(n)


def reps(type_, key, leaf):
    """representatives for one leaf alternative: list of dict(kind, text, value)"""
    t = leaf.get("type")
    pat = leaf.get("pattern")
    out = []
    if "enum" in leaf:
        for e in leaf["enum"]:
            if isinstance(e, str):
                out.append(dict(kind="enum", text=e.upper(), value=e.upper(), word=e))
            elif isinstance(e, bool):
                out.append(dict(kind="bool", text=str(e).upper(), value=e))
            else:
                out.append(dict(kind="enumnum", text=_fmt(e), value=e))
        return out
    if t == "string":
        if pat == "^\\[(.*?)\\]$":
            return [dict(kind="binding", text="[item]", value="[item]")]
        if pat == "^\\((.*?)\\)$":
            return [dict(kind="expression", text='( [a] = "b" )', value='( [a] = "b" )')]
        if pat == "^/(.*?)/$":
            return [dict(kind="regex", text="/^ab.c/", value="/^ab.c/")]
        if pat and pat.startswith("^#("):
            return [dict(kind="hexcolor", text='"#aa33cc"', value="#aa33cc")]
        if pat == "^&#[0-9]+;$":
            return [dict(kind="string", text='"&#40;"', value="&#40;")]
        if pat and pat.startswith("^") and pat.endswith("$") and pat[1:-1].isalpha():
            w = pat[1:-1]
            return [dict(kind="string", text='"%s"' % w, value=w)]
        if leaf.get("maxLength") == 1:
            return [dict(kind="string", text='"x"', value="x", maxlen=1)]
        return [dict(kind="string", text='"abc"', value="abc")]
    if t in ("number", "integer"):
        n = _num(leaf, t == "integer")
        return [dict(kind="int" if isinstance(n, int) else "float", text=_fmt(n), value=n, leaf=leaf)]
    if t == "boolean":
        return [dict(kind="bool", text="TRUE", value=True), dict(kind="bool", text="FALSE", value=False)]
    if t == "array":
        items = leaf.get("items", {})
        n = leaf.get("minItems", leaf.get("maxItems", 2))
        if isinstance(items, list):
            # positional items (shadowsize int + [attr]; anchorpoint)
            vals, texts = [], []
            for i in range(n):
                it = items[i] if i < len(items) else items[-1]
                sub = []
                for lf in leaves(it):
                    sub += reps(type_, key, lf)
                r = sub[0]
                vals.append(r["value"])
                texts.append(r["text"])
            return [dict(kind="tuple", text=" ".join(texts), value=vals)]
        if key in ("points",) or (isinstance(items, dict) and items.get("type") == "array"):
            return [dict(kind="pairs", text=None, value=None)]
        out = []
        for lf in leaves(items):
            sub = reps(type_, key, lf)
            if not sub:
                continue
            r = sub[0]
            if r["kind"] in ("int", "float"):
                if n == 3 and r["kind"] == "float":
                    # a number triple is a colour: MapServer (and the grammar's rgb rule) writes integers
                    r = dict(r, kind="int", value=_num(lf, True))
                vals = []
                for i in range(n):
                    v = r["value"] + i if _ok(lf, r["value"] + i) else r["value"]
                    vals.append(v)
                out.append(dict(kind="numlist", text=" ".join(_fmt(v) for v in vals), value=vals, leaf=lf))
            elif r["kind"] == "binding":
                vals = ["[a%d]" % i for i in range(n)]
                out.append(dict(kind="bindlist", text=" ".join(vals), value=vals))
            elif r["kind"] == "string":
                vals = ["s%d" % i for i in range(n)]
                if key == "colorrange":
                    vals = ["#aa000%d" % i for i in range(n)]      # a pair of strings in COLORRANGE is a pair of hex colours
                if key in REPEATED:
                    # repeatable keyword: one string per occurrence, collected into a list
                    out.append(dict(kind="repeated", text=("\n" + key.upper() + " ").join('"%s"' % v for v in vals), value=vals))
                else:
                    out.append(dict(kind="strlist", text=" ".join('"%s"' % v for v in vals), value=vals))
        return out
    if t == "object" or "properties" in leaf:
        child = None
        try:
            child = leaf["properties"]["__type__"]["enum"][0]
        except Exception:
            pass
        return [dict(kind="object", child=child or key, text=None, value=None)]
    return out


def _ok(leaf, v):
    if "minimum" in leaf and v < leaf["minimum"]:
        return False
    if "maximum" in leaf and v > leaf["maximum"]:
        return False
    return True


_CACHE = {}


def slots():
    """all slots: list of dict(type, key, alt, kind, text, value, ...)"""
    if "slots" in _CACHE:
        return _CACHE["slots"]
    out = []
    for t in object_types():
        sch = expanded(t)
        for key, p in sch["properties"].items():
            if key.startswith("__"):
                continue
            if isinstance(p, dict) and p.get("type") == "array" and isinstance(p.get("items"), dict) and \
                    (p["items"].get("type") == "object" or "properties" in p["items"]):
                child = p["items"]["properties"]["__type__"]["enum"][0]
                out.append(dict(type=t, key=key, alt=0, kind="objlist", child=child, text=None, value=None, props=p))
                continue
            seen = set()
            for ai, lf in enumerate(leaves(p)):
                for r in reps(t, key, lf):
                    sig = (r["kind"], r.get("text"), r.get("child"))
                    if sig in seen:
                        continue
                    seen.add(sig)
                    d = dict(type=t, key=key, alt=ai, props=p)
                    d.update(r)
                    out.append(d)
    _CACHE["slots"] = out
    return out


def simple_slots():
    """slots that are written as one ``KEY value`` line"""
    return [s for s in slots() if s["text"] is not None and s["key"] not in SPECIAL and s["key"] != "include"]


if __name__ == "__main__":
    import collections
    ss = slots()
    print(len(ss), "slots;", len(simple_slots()), "simple")
    print(collections.Counter(s["kind"] for s in ss))
