"""Design-phase probe (not part of the checking machinery): bit-blasted bounded model checking of
lark's real LALR parse table for mappyfile's grammar. Usage: python lalr_bmc_probe.py reach|prec|vocab"""
import z3, time, sys
from mappyfile.parser import Parser
from lark.parsers.lalr_analysis import Shift
W = 12
def V(x): return z3.BitVecVal(x, W)
P = Parser()
pt = P.lalr.parser.parser._parse_table
states = pt.states
START = pt.start_states['start']; ENDST = pt.end_states['start']
allsyms = sorted({a for v in states.values() for a in v.keys()})
rules = []; rid = {}
for v in states.values():
    for a,(act,arg) in v.items():
        if act is not Shift and arg not in rid:
            rid[arg] = len(rules); rules.append(arg)
ntnames = {r.origin.name for r in rules}
ntnames = {str(n) for n in ntnames}
terms = [s for s in allsyms if s not in ntnames]
tid = {t:i for i,t in enumerate(terms)}
ntid = {n:i for i,n in enumerate(sorted(ntnames))}
act_entries = {}; goto_entries = {}
for s,v in states.items():
    for a,(act,arg) in v.items():
        if act is Shift:
            if a in ntid: goto_entries[(s, ntid[a])] = arg
            else: act_entries[(s, tid[a])] = 1+arg          # 1..266 shift
        else:
            act_entries[(s, tid[a])] = 1000+rid[arg]        # 1000.. reduce
print("states", len(states), "terms", len(terms), "nts", len(ntid), "rules", len(rules), "act", len(act_entries), "goto", len(goto_entries))

def table(entries, default):
    by0 = {}
    for k,v in entries.items(): by0.setdefault(k[0], {}).setdefault(v, []).append(k[1])
    def f(x0, x1):
        body = V(default)
        for a0, byv in by0.items():
            inner = V(default)
            for v, a1s in byv.items():
                inner = z3.If(z3.Or([x1==a for a in a1s]), V(v), inner)
            body = z3.If(x0==a0, inner, body)
        return body
    return f
ACT = table(act_entries, 0); GOTO = table(goto_entries, 0)
rlen = [len(r.expansion) for r in rules]
rlhs = [ntid[str(r.origin.name)] for r in rules]
def lut(tab, x):
    e = V(tab[-1])
    for i in range(len(tab)-2, -1, -1): e = z3.If(x==i, V(tab[i]), e)
    return e
def sel(lst, idx):
    e = lst[-1]
    for i in range(len(lst)-2,-1,-1): e = z3.If(idx==i, lst[i], e)
    return e

def bmc(N, D, STEPS, goal, tactic=True):
    S = z3.Then('simplify','propagate-values','solve-eqs','bit-blast','sat').solver() if tactic else z3.SolverFor("QF_BV")
    S.set("timeout", 600000)
    toks = [z3.BitVec('tok%d'%i, W) for i in range(N)]
    END = tid['$END']
    for t in toks: S.add(z3.ULT(t, len(terms)), t != END)
    stk = [[z3.BitVec('s_%d_%d'%(j,d), W) for d in range(D)] for j in range(STEPS+1)]
    sp = [z3.BitVec('sp_%d'%j, W) for j in range(STEPS+1)]
    pos = [z3.BitVec('pos_%d'%j, W) for j in range(STEPS+1)]
    st = [z3.BitVec('st_%d'%j, W) for j in range(STEPS+1)]
    S.add(stk[0][0]==START, sp[0]==1, pos[0]==0, st[0]==0)
    events = []
    for j in range(STEPS):
        top = sel(stk[j], sp[j]-1)
        la = z3.If(z3.UGE(pos[j], N), V(END), sel(toks, pos[j]))
        a = ACT(top, la)
        is_err = a == 0; is_shift = z3.And(a != 0, z3.ULT(a, 1000)); is_red = z3.UGE(a, 1000)
        r = a - 1000
        n = lut(rlen, r); lhs = lut(rlhs, r)
        under = sel(stk[j], sp[j]-1-n)
        g = GOTO(under, lhs)
        running = st[j]==0
        nsp = z3.If(is_shift, sp[j]+1, sp[j]-n+1)
        S.add(z3.Implies(z3.And(running, is_err), z3.And(st[j+1]==2, sp[j+1]==sp[j], pos[j+1]==pos[j])))
        S.add(z3.Implies(z3.Not(running), z3.And(st[j+1]==st[j], sp[j+1]==sp[j], pos[j+1]==pos[j])))
        ok = z3.And(running, z3.Not(is_err))
        S.add(z3.Implies(ok, z3.And(sp[j+1]==nsp, z3.ULE(nsp, D), z3.UGE(nsp, 1),
               pos[j+1]==z3.If(is_shift, pos[j]+1, pos[j]),
               st[j+1]==z3.If(z3.And(is_red, la==END, g==ENDST), V(1), V(0)))))
        for d in range(D):
            newv = z3.If(is_shift, z3.If(sp[j]==d, a-1, stk[j][d]),
                         z3.If(sp[j]-n==d, g, stk[j][d]))
            S.add(z3.Implies(ok, stk[j+1][d]==newv))
        events.append(dict(j=j, top=top, la=la, a=a, is_shift=is_shift, is_red=is_red, r=r, running=running, sp=sp[j], pos=pos[j]))
    goal(S, toks, events, st, sp, pos)
    return S, toks
names = {v:k for k,v in tid.items()}
def show(m, toks): return [names.get(m.eval(t, model_completion=True).as_long()) for t in toks]



if __name__ == "__main__":
    which = sys.argv[1] if len(sys.argv) > 1 else "reach"
    def rules_of(name): return [i for i, r in enumerate(rules) if str(r.origin.name) == name and len(r.expansion) > 1]
    if which == "reach":
        # a token of type UNQUOTED_STRING / GRID is inspected by Parser.parse while the value stack is empty
        def g1(S, toks, events, st, sp, pos):
            S.add(z3.Or([z3.And(e['running'], e['sp']==1, z3.ULT(e['pos'], len(toks)), z3.Or(e['la']==tid['GRID'], e['la']==tid['UNQUOTED_STRING']), e['a']!=0) for e in events]))
        t0=time.time(); S,toks = bmc(3, 8, 12, g1); r=S.check(); print("REACH", r, round(time.time()-t0,1), show(S.model(), toks) if str(r)=='sat' else '')
        def g1b(S, toks, events, st, sp, pos):
            g1(S, toks, events, st, sp, pos); S.add(toks[0] != tid['GRID'])
        t0=time.time(); S,toks = bmc(3, 8, 12, g1b); r=S.check(); print("REACH without root GRID", r, round(time.time()-t0,1))
    elif which == "prec":
        seq = ['CLASS','UNQUOTED_STRING','LPAR','SIGNED_INT',None,'SIGNED_INT',None,'SIGNED_INT','RPAR','_END']
        ORS = [tid['OR'], tid['__ANON_0']]; ANDS = [tid['AND'], tid['__ANON_1']]
        def gp(S, toks, events, st, sp, pos, negate=True):
            for t, name in zip(toks, seq):
                if name: S.add(t == tid[name])
            op1, op2 = toks[4], toks[6]
            S.add(z3.Or([op1 == k for k in ORS + ANDS]), z3.Or([op2 == k for k in ORS + ANDS])); S.add(st[-1] == 1)
            if not negate: return
            def first_red(rs):
                e = V(4000)
                for ev in reversed(events):
                    e = z3.If(z3.And(ev['running'], ev['is_red'], z3.Or([ev['r'] == k for k in rs])), V(ev['j']), e)
                return e
            f_or, f_and = first_red(rules_of("or_test")), first_red(rules_of("and_test"))
            is_or1 = z3.Or([op1 == k for k in ORS]); is_or2 = z3.Or([op2 == k for k in ORS])
            S.add(z3.Not(z3.Implies(is_or1 != is_or2, z3.ULT(f_and, f_or))))
        t0=time.time(); S,toks = bmc(len(seq), 14, 60, gp); r=S.check(); print("PREC and/or violated?", r, round(time.time()-t0,1))
        t0=time.time(); S,toks = bmc(len(seq), 14, 60, lambda *a: gp(*a, negate=False)); r=S.check(); print("PREC twin (accepted)", r, round(time.time()-t0,1), show(S.model(), toks) if str(r)=='sat' else '')
    else:
        BLOCKS = ["CLASS","CLUSTER","COMPOSITE","FEATURE","GRID","JOIN","LABEL","LAYER","LEADER","LEGEND","MAP","OUTPUTFORMAT","QUERYMAP","REFERENCE","SCALEBAR","SCALETOKEN","STYLE","WEB","SYMBOL"]
        VALS = ["DOUBLE_QUOTED_STRING","SINGLE_QUOTED_STRING","SIGNED_INT","SIGNED_FLOAT","UNQUOTED_STRING","TRUE","FALSE","PATH"]
        KEYS = ["UNQUOTED_STRING","STYLE","SYMBOL","GRID","LABEL","CLASS"]
        def fam(S, toks, events, st, sp, pos, negate):
            b,k1,v1,k2,v2,e = toks
            S.add(z3.Or([b==tid[x] for x in BLOCKS]), z3.Or([k1==tid[x] for x in KEYS]), z3.Or([v1==tid[x] for x in VALS]),
                  z3.Or([k2==tid[x] for x in KEYS]), z3.Or([v2==tid[x] for x in VALS]), e==tid['_END'])
            S.add(st[-1] != 1 if negate else st[-1] == 1)
        t0=time.time(); S,toks = bmc(6, 12, 40, lambda *a: fam(*a, negate=True)); r=S.check()
        print("VOCAB-like: rejected member?", r, round(time.time()-t0,1), show(S.model(), toks) if str(r)=='sat' else '')
        t0=time.time(); S,toks = bmc(6, 12, 40, lambda *a: fam(*a, negate=False)); r=S.check()
        print("twin accepted member:", r, round(time.time()-t0,1), show(S.model(), toks) if str(r)=='sat' else '')
