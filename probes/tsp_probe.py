"""Design-phase probe (not part of the checking machinery): the template-symbolic pipeline.
The real lexer runs concretely on a skeleton; designated hole tokens get symbolic values; the real
interactive parse loop, LALR tables, transformer and printer then run under CrossHair.

  crosshair check --report_all --per_condition_timeout 300 --per_path_timeout 100 tsp_probe.py:<line inside a def>

Measured (CrossHair 0.0.110, z3 5.1): strings 1 path/17 s, expr 1 path/19 s, pos 1 path/11 s,
comments 1 path/11 s.
"""
from mappyfile.parser import Parser
from mappyfile.transformer import MapfileToDict
from mappyfile.pprint import PrettyPrinter


def walk(x):
    if isinstance(x, dict):
        for v in x.values():
            walk(v)
    elif isinstance(x, list):
        for v in x:
            walk(v)


class HoleLexer:
    def __init__(self, real, holes=None, pos=None):
        self.real, self.holes, self.pos = real, holes or {}, pos or {}

    def lex(self, lexer_state, parser_state):
        i = 0
        for tok in self.real.lex(lexer_state, parser_state):
            h = self.holes.get(tok.value)
            if h is not None:
                tok.value = h
            p = self.pos.get(i)
            if p is not None:
                tok.line, tok.column = p
            i += 1
            yield tok


class Pipe:
    def __init__(self, **popts):
        self.P = Parser(**popts)
        self.front = self.P.lalr.parser
        self.real = self.front.lexer

    def parse(self, text, holes=None, pos=None):
        self.front.lexer = HoleLexer(self.real, holes, pos)
        try:
            return self.P.parse(text)
        finally:
            self.front.lexer = self.real


PIPE = Pipe()
PIPEC = Pipe(include_comments=True)
M = MapfileToDict()
MP = MapfileToDict(include_position=True)
MC = MapfileToDict(include_comments=True)
PP = PrettyPrinter(indent=4, quote='"')
for _t in ("map", "layer", "class", "style", "label", "metadata"):
    walk(PP.validator.get_expanded_schema(_t))  # resolve JsonRef proxies outside tracing

T1 = '''LAYER
  NAME "H1" # c1
  TYPE polygon
  METADATA
    "k1" "H2"
  END
  CLASS
    NAME 'H3'
    EXPRESSION "H4"
    STYLE
      WIDTH 2
      COLOR 1 2 3
    END
  END
END'''


def okc(c, q):
    return (c >= 32) & (c < 0x3000) & (c != q)


def strings(c0: int, c1: int, c2: int, e0: int, e1: int, e2: int, f0: int, f1: int, f2: int) -> bool:
    """
    pre: okc(c0,34) & okc(c1,34) & okc(c2,34) & okc(e0,34) & okc(e1,34) & okc(e2,34) & okc(f0,39) & okc(f1,39) & okc(f2,39)
    post: _
    """
    s1 = chr(c0) + chr(c1) + chr(c2); s2 = chr(e0) + chr(e1) + chr(e2); s3 = chr(f0) + chr(f1) + chr(f2)
    holes = {'"H1"': '"' + s1 + '"', '"H2"': '"' + s2 + '"', "'H3'": "'" + s3 + "'"}
    d = M.transform(PIPE.parse(T1, holes))
    lines = PP._format(d)
    ok = s1 == d["name"] and s2 == d["metadata"]["k1"] and s3 == d["classes"][0]["name"]
    ok = ok and lines[1] == '    NAME "' + s1 + '"' and lines[4] == '        "k1" "' + s2 + '"' and lines[7] == '        NAME "' + s3 + '"'
    return ok and len(lines) == 15


EXPR = 'CLASS EXPRESSION ( [A1] = "V1" AND [A2] > 5 OR NOT [A3] IN "V2" ) END'


def expr(a0: int, a1: int, v0: int, v1: int) -> bool:
    """
    pre: (a0 >= 97) & (a0 <= 122) & (a1 >= 97) & (a1 <= 122) & okc(v0,34) & okc(v1,34)
    post: _
    """
    n1 = chr(a0) + chr(a1); s1 = '"' + chr(v0) + chr(v1) + '"'
    d = M.transform(PIPE.parse(EXPR, {"A1": n1, '"V1"': s1}))
    exp = "( ( ( [" + n1 + "] = " + s1 + " ) AND ( [A2] > 5 ) ) OR NOT ( [A3] IN \"V2\" ) )"
    return exp == d["expression"] and PP._format(d)[1] == "    EXPRESSION " + exp


TP = 'LAYER NAME "x" TYPE polygon PROCESSING "a=1" PROCESSING "b=2" METADATA "k" "v" END END'


def pos(l0: int, c0: int, l1: int, c1: int, l5: int, c5: int, l7: int, c7: int, l9: int, c9: int) -> bool:
    """
    pre: (l0 >= 1) & (l1 >= l0) & (l5 >= l1) & (l7 >= l5) & (l9 >= l7) & (l9 < 60) & (c0 >= 1) & (c1 >= 1) & (c5 >= 1) & (c7 >= 1) & (c9 >= 1) & (c0 < 90) & (c1 < 90) & (c5 < 90) & (c7 < 90) & (c9 < 90)
    post: _
    """
    d = MP.transform(PIPE.parse(TP, pos={0: (l0, c0), 1: (l1, c1), 5: (l5, c5), 7: (l7, c7), 9: (l9, c9)}))
    p = d["__position__"]
    ok = p["line"] == l0 and p["column"] == c0 and p["name"]["line"] == l1 and p["name"]["column"] == c1
    ok = ok and p["processing"][0]["line"] == l5 and p["processing"][1]["line"] == l7 and p["processing"][1]["column"] == c7
    mp = d["metadata"]["__position__"]
    return ok and mp["line"] == l9 and mp["column"] == c9


TC = '''# CA
LAYER
  NAME "x" # CB
  TYPE polygon
  METADATA
    "k1" "v1" # CC
  END
END'''


def comments(a0: int, a1: int, b0: int, b1: int, c0: int) -> bool:
    """
    pre: okc(a0,32) & okc(a1,32) & okc(b0,32) & okc(b1,32) & okc(c0,32)
    post: _
    """
    ca = "#" + chr(a0) + chr(a1); cb = "#" + chr(b0) + chr(b1); cc = "#" + chr(c0)
    sub = {"# CA": ca, "# CB": cb, "# CC": cc}
    P = PIPEC.P
    orig = P._assign_comments
    state = {"done": False}

    def patched(tree):
        if not state["done"]:
            state["done"] = True
            for k in list(P.comments_dict.keys()):
                if P.comments_dict[k] in sub:
                    P.comments_dict[k] = sub[P.comments_dict[k]]
        return orig(tree)

    P._assign_comments = patched
    try:
        tree = P.parse(TC)
    finally:
        del P._assign_comments
    lines = PP._format(MC.transform(tree))
    exp = [ca, "LAYER", '    NAME "x" ' + cb, "    TYPE POLYGON", "    METADATA", '        "k1" "v1" ' + cc, "    END", "END"]
    return exp == lines
