"""Design-phase probe (not part of the checking machinery). Scanner-level lemma prototype: lark's per-state scanner (ordered terminals, first match wins,
UnlessCallback keyword re-typing) over the bounded backtracking model of bt.py."""
import sys, time, z3, re
import re._parser as sp
from lex_backtracking_probe import M
from mappyfile.parser import Parser

P = Parser()
CL = P.lalr.parser.lexer
# pick the parser state reached after `LAYER NAME` (expects a value)
ip = P.lalr.parse_interactive('LAYER NAME "x" END')
it = ip.iter_parse(); next(it); next(it)
state = ip.parser_state.position
lexer = CL.lexers[state]
order = [(t.name, t.pattern.to_regexp()) for t in lexer.scanner.terminals]
unless = {k: [(t.name, t.pattern.to_regexp()) for t in cb.scanner.terminals] for k, cb in lexer.callback.items() if hasattr(cb, 'scanner')}
print("state", state, "scan order", [n for n, _ in order])
print("unless", {k: len(v) for k, v in unless.items()})

def scan(m, i=0):
    """returns (type_index expr, end expr, ok expr) for the first terminal in order with a candidate"""
    ty = z3.IntVal(-1); end = z3.IntVal(-1); ok = z3.BoolVal(False)
    for idx in range(len(order) - 1, -1, -1):
        name, rx = order[idx]
        o, e, _ = m.first(rx, i)
        ty = z3.If(o, z3.IntVal(idx), ty); end = z3.If(o, e, end); ok = z3.Or(o, ok)
    return ty, end, ok

L = int(sys.argv[1]) if len(sys.argv) > 1 else 12
names = [n for n, _ in order]
DQ = names.index("DOUBLE_QUOTED_STRING")
for hyp in ("none", "nobackslash", "nobackslash+nothex"):
    m = M(L); t0 = time.time()
    ty, end, ok = scan(m)
    build = time.time() - t0
    s = z3.Solver(); s.set("timeout", 300000); k = z3.Int('k')
    s.add(m.n <= L, k >= 1, k + 1 < m.n, m.x[0] == 34)
    for j in range(L):
        s.add(z3.Implies(z3.And(j >= 1, k > j), m.x[j] != 34), z3.Implies(k == j, m.x[j] == 34))
        s.add(z3.Implies(k + 1 == j, z3.Or(m.x[j] == 32, m.x[j] == 10)))
        if hyp != "none": s.add(z3.Implies(z3.And(k - 1 == j, j >= 1), m.x[j] != 92))
    if hyp.endswith("nothex"): s.add(m.x[1] != 35)
    s.add(z3.Not(z3.And(ok, ty == DQ, end == k + 1)))
    t0 = time.time(); r = s.check(); dt = time.time() - t0
    line = "LX-CLASS(quoted,q=\") hyp=%s: %s build %.1fs solve %.1fs" % (hyp, r, build, dt)
    if str(r) == 'sat':
        mo = s.model(); n = mo.eval(m.n).as_long()
        w = ''.join(chr(mo.eval(m.x[j], model_completion=True).as_long()) for j in range(n))
        line += "  cex %r -> model type %s end %s" % (w, names[mo.eval(ty).as_long()] if mo.eval(ty).as_long() >= 0 else None, mo.eval(end))
        # replay on the real lexer
        try:
            toks = list(lexer.lex(__import__('lark').lexer.LexerState(__import__('lark').lexer.TextSlice.cast_from(w)) if hasattr(__import__('lark').lexer,'TextSlice') else None, None))
        except Exception as ex:
            toks = "replay-error %s" % type(ex).__name__
        mm = lexer.match(__import__('lark').lexer.TextSlice.cast_from(w), 0) if hasattr(__import__('lark').lexer,'TextSlice') else None
        line += "  real scanner: %r" % (mm,)
    print(line)
