"""Design-phase probe (not part of the checking machinery).
Bounded symbolic model of Python's backtracking `re.match` (ordered choice, greedy/lazy repeats).
Text = L symbolic chars x[0..L-1] (BitVec 21) + symbolic length n<=L. Positions are concrete.
match(seq, i) -> ordered list [(cond, j)] of candidate end positions in backtracking priority order."""
import re, z3, random, time, sys
import re._parser as sp, re._constants as sc
CW = 21
class M:
    def __init__(self, L):
        self.L = L
        self.x = [z3.BitVec('x%d' % i, CW) for i in range(L)]
        self.n = z3.Int('n')
        self.memo = {}
        self._keep = []   # parsed patterns must stay alive: memo keys use id() of their nodes
    def inrange(self, i): return self.n > i          # char i exists
    def cls(self, items, icase, c):
        neg = False; ors = []
        def lit(v):
            vs = {v}
            if icase:
                ch = chr(v); vs |= {ord(ch.lower()), ord(ch.upper())} if len(ch.lower()) == 1 and len(ch.upper()) == 1 else set()
            return z3.Or([c == k for k in vs])
        for op, av in items:
            if op == sc.NEGATE: neg = True
            elif op == sc.LITERAL: ors.append(lit(av))
            elif op == sc.RANGE:
                lo, hi = av; rs = [(lo, hi)]
                if icase:
                    for a, b, off in ((65, 90, 32), (97, 122, -32)):
                        l, h = max(lo, a), min(hi, b)
                        if l <= h: rs.append((l + off, h + off))
                ors.append(z3.Or([z3.And(z3.UGE(c, l), z3.ULE(c, h)) for l, h in rs]))
            elif op == sc.CATEGORY:
                rs = {sc.CATEGORY_DIGIT: [(48, 57)], sc.CATEGORY_SPACE: [(9, 13), (32, 32)]}[av]
                ors.append(z3.Or([z3.And(z3.UGE(c, l), z3.ULE(c, h)) for l, h in rs]))
            else: raise NotImplementedError(op)
        e = z3.Or(ors)
        return z3.Not(e) if neg else e
    def match(self, seq, i, icase, dotall):
        """seq: tuple of (op, av) nodes. returns ordered [(cond, j)]"""
        key = (id(seq) if not isinstance(seq, tuple) else tuple(id(s) for s in seq), i, icase, dotall)
        if not seq: return [(z3.BoolVal(True), i)]
        if key in self.memo: return self.memo[key]
        (op, av), rest = seq[0], tuple(seq[1:])
        res = []
        def then(cands):
            out = []
            for c, j in cands:
                for c2, j2 in self.match(rest, j, icase, dotall):
                    out.append((z3.And(c, c2), j2))
            return out
        def one(pred):
            if i >= self.L: return []
            return then([(z3.And(self.inrange(i), pred(self.x[i])), i + 1)])
        if op == sc.LITERAL: res = one(lambda c: self.cls([(sc.LITERAL, av)], icase, c))
        elif op == sc.NOT_LITERAL: res = one(lambda c: z3.Not(self.cls([(sc.LITERAL, av)], icase, c)))
        elif op == sc.ANY: res = one(lambda c: z3.BoolVal(True) if dotall else c != 10)
        elif op == sc.IN: res = one(lambda c: self.cls(av, icase, c))
        elif op == sc.BRANCH:
            for alt in av[1]:
                res += self.match(tuple(alt) + rest, i, icase, dotall)
        elif op == sc.SUBPATTERN:
            g, addf, delf, sub = av
            ic = icase or bool(addf & re.I); da = dotall or bool(addf & re.S)
            if (ic, da) == (icase, dotall):
                res = self.match(tuple(sub) + rest, i, icase, dotall)
            else:
                # flags scoped to the group: match group alone then the rest with outer flags
                for c, j in self.match(tuple(sub), i, ic, da):
                    for c2, j2 in self.match(rest, j, icase, dotall): res.append((z3.And(c, c2), j2))
        elif op in (sc.MAX_REPEAT, sc.MIN_REPEAT):
            lo, hi, sub = av
            sub = tuple(sub)
            def rep(k, pos, depth):
                # candidates for repeating from count k at position pos, followed by rest
                stop = self.match(rest, pos, icase, dotall) if k >= lo else []
                more = []
                if (hi == sc.MAXREPEAT or k < hi) and depth <= self.L:
                    for c, j in self.match(sub, pos, icase, dotall):
                        if j == pos: continue   # empty iteration guard
                        for c2, j2 in rep(k + 1, j, depth + 1): more.append((z3.And(c, c2), j2))
                return (more + stop) if op == sc.MAX_REPEAT else (stop + more)
            res = rep(0, i, 0)
        elif op == sc.ASSERT_NOT:
            direction, sub = av
            assert direction == 1
            la = self.match(tuple(sub), i, icase, dotall)
            ok = z3.Not(z3.Or([c for c, _ in la])) if la else z3.BoolVal(True)
            res = [(z3.And(ok, c), j) for c, j in self.match(rest, i, icase, dotall)]
        else: raise NotImplementedError(str(op))
        res = [(z3.simplify(c), j) for c, j in res]
        res = [(c, j) for c, j in res if not z3.is_false(c)]
        self.memo[key] = res
        return res
    def first(self, pattern, i=0):
        p = sp.parse(pattern); self._keep.append(p)
        cands = self.match(tuple(p), i, bool(p.state.flags & re.I), bool(p.state.flags & re.S))
        ok = z3.Or([c for c, _ in cands]) if cands else z3.BoolVal(False)
        end = z3.IntVal(-1)
        for c, j in reversed(cands): end = z3.If(c, z3.IntVal(j), end)
        return ok, end, len(cands)

if __name__ == "__main__":
    from mappyfile.parser import Parser
    T = {t.name: t.pattern.to_regexp() for t in Parser().lalr.terminals}
    L = int(sys.argv[1]) if len(sys.argv) > 1 else 8
    # differential validation against re on random strings
    rnd = random.Random(1); alpha = 'ab"\\\'i/ 1.-e_:#*\n%[('
    bad = 0; tot = 0
    for name in ("DOUBLE_QUOTED_STRING", "SINGLE_QUOTED_STRING", "UNQUOTED_STRING", "SIGNED_INT", "SIGNED_FLOAT", "PATH", "REGEXP1", "ESCAPED_STRING", "COMMENT", "CCOMMENT", "RUNTIME_VAR", "DOUBLE_QUOTED_HEXCOLOR"):
        m = M(L); t0 = time.time(); ok, end, nc = m.first(T[name]); bt = time.time() - t0
        s = z3.Solver()
        for _ in range(150):
            w = ''.join(rnd.choice(alpha) for _ in range(rnd.randint(0, L)))
            r = re.compile(T[name]).match(w)
            s.push(); s.add(m.n == len(w)); [s.add(m.x[k] == ord(ch)) for k, ch in enumerate(w)]
            assert str(s.check()) == 'sat'
            mo = s.model(); got_ok = z3.is_true(mo.eval(ok, model_completion=True)); got_end = mo.eval(end, model_completion=True).as_long()
            s.pop(); tot += 1
            if (r is not None) != got_ok or (r is not None and r.end() != got_end):
                bad += 1; print("MISMATCH", name, repr(w), r, got_ok, got_end)
        print(name, "cands", nc, "build %.1fs" % bt)
    print("differential:", tot, "cases", bad, "mismatches")
    # lemma: content without quote and not ending in backslash => DQ lexeme is exactly the quoted string
    for extra in (False, True):
        m = M(L); ok, end, _ = m.first(T["DOUBLE_QUOTED_STRING"])
        s = z3.Solver(); k = z3.Int('k')   # k = index of closing quote
        s.add(m.n <= L, k >= 1, k + 1 < m.n, m.x[0] == 34)
        for j in range(L):
            s.add(z3.Implies(z3.And(j >= 1, k > j), m.x[j] != 34), z3.Implies(k == j, m.x[j] == 34))
            s.add(z3.Implies(k + 1 == j, z3.Or(m.x[j] == 32, m.x[j] == 10)))
            if extra: s.add(z3.Implies(z3.And(k - 1 == j, j >= 1), m.x[j] != 92))
        s.add(z3.Not(z3.And(ok, end == k + 1)))
        t0 = time.time(); r = s.check(); print("DQ lemma extra=%s:" % extra, r, "%.1fs" % (time.time() - t0))
        if str(r) == 'sat':
            mo = s.model(); n = mo.eval(m.n).as_long(); print("  cex:", repr(''.join(chr(mo.eval(m.x[j], model_completion=True).as_long()) for j in range(n))), "model end", mo.eval(end))
