#!/bin/bash
# confirm a seeded change in a fresh scratch worktree: applies cleanly, suite passes, demo fails with / passes without
ID="$1"; ROOT="${SEEDROOT:-/tmp/mut}"; mkdir -p "$ROOT"; SRC="$ROOT/$ID/_seed"; WT="$ROOT/eval_$ID"
[ -f "$SRC/patch.diff" ] || { echo "$ID: no patch"; exit 2; }
git -C /repo worktree remove --force "$WT" 2>/dev/null
git -C /repo worktree add -q --detach "$WT" HEAD || exit 2
cp "$SRC/demo.py" "$WT/_demo.py"
( cd "$WT" && PYTHONPATH="$WT" /venv/bin/python _demo.py > "$WT/_demo_clean.out" 2>&1; echo "clean_exit=$?" > "$WT/_confirm.txt" )
git -C "$WT" apply "$SRC/patch.diff" || { echo "$ID: patch does not apply"; exit 2; }
( cd "$WT" && PYTHONPATH="$WT" timeout 300 /venv/bin/python _demo.py > "$WT/_demo_mut.out" 2>&1; echo "mut_exit=$?" >> "$WT/_confirm.txt" )
( cd "$WT" && PYTHONPATH="$WT" /venv/bin/python -m pytest -q -p no:cacheprovider --timeout=900 --deselect tests/test_map_collection.py::test_maps > "$WT/_suite.out" 2>&1; echo "suite=$(tail -1 $WT/_suite.out)" >> "$WT/_confirm.txt" )
echo "$ID $(tr '\n' ' ' < $WT/_confirm.txt) files=$(git -C $WT diff --stat | tail -1)"
