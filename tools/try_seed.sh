#!/bin/bash
# pre-screen a seeded change in its scratch worktree (does not touch /repo or /verif/evidence):
#   tools/try_seed.sh <worktree> <check id> [--only GLOB]
WT="$1"; shift; ID="$1"; shift
mkdir -p /tmp/mut
export PYTHONPATH="$WT" VF_REPO="$WT" VF_EVIDENCE_DIR="/tmp/mut/evidence_$ID" VF_REPLAY_DIR="/tmp/mut/replays_$ID"
cd "$(dirname "$0")/.." && ./vf check "$ID" "$@"
