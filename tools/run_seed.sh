#!/bin/bash
# official run of a check against a seeded change: apply to /repo, run the quick check, undo straight afterwards
ID="$1"; shift
cd /verif
[ -z "$(git -C /repo status --porcelain)" ] || { echo "/repo not clean"; exit 2; }
git -C /repo apply "/verif/seeded/$ID/patch.diff" || exit 2
export VF_EVIDENCE_DIR="/tmp/mut/official_ev" VF_REPLAY_DIR="/tmp/mut/official_rp_$ID"
./vf check "$ID" "$@" > "/tmp/mut/official_$ID.log" 2>&1; RC=$?
git -C /repo checkout -- .
echo "exit=$RC" >> "/tmp/mut/official_$ID.log"
echo "$ID exit=$RC $(grep -E "^C[0-9]+ \[" /tmp/mut/official_$ID.log | tail -1)"
