#!/bin/bash
# official run of a check against a seeded change: apply to /repo, run the quick check, undo straight afterwards
#   tools/run_seed.sh <seed dir name under seeded/> [check id]
SEED="$1"; ID="${2:-${SEED%%-*}}"
cd /verif; mkdir -p /tmp/mut
[ -z "$(git -C /repo status --porcelain)" ] || { echo "/repo not clean"; exit 2; }
git -C /repo apply "/verif/seeded/$SEED/patch.diff" || exit 2
export VF_EVIDENCE_DIR="/tmp/mut/official_ev" VF_REPLAY_DIR="/tmp/mut/official_rp_$SEED"
./vf check "$ID" > "/tmp/mut/official_$SEED.log" 2>&1; RC=$?
git -C /repo checkout -- .
echo "$SEED check=$ID exit=$RC $(grep -E "^C[0-9]+ \[" /tmp/mut/official_$SEED.log | tail -1)"
