#!/bin/bash
# collect a round-3 sub-agent's work from its scratch worktree /tmp/r3/<id> into /tmp/mut/<id>-r3/_seed, confirm it in a
# fresh worktree (tools/confirm_seed.sh) and pre-screen it cold with the property's quick check (tools/try_seed.sh)
ID="$1"; S="$ID-r3"; WT="/tmp/r3/$ID"; D="/tmp/mut/$S/_seed"; mkdir -p "$D"
git -C "$WT" diff -- mappyfile > "$D/patch.diff"; cp "$WT/demo.py" "$D/demo.py"; cp "$WT/notes.md" "$D/notes.md" 2>/dev/null
[ -s "$D/patch.diff" ] || { echo "$S: empty patch"; exit 2; }
"$(dirname "$0")/confirm_seed.sh" "$S"
"$(dirname "$0")/try_seed.sh" "/tmp/mut/eval_$S" "$ID" > "/tmp/mut/cold_$S.log" 2>&1; echo "$S cold exit=$? $(grep -E "^C[0-9]+ \[" /tmp/mut/cold_$S.log | tail -1)"
grep -E "VIOLATION" "/tmp/mut/cold_$S.log" | head -5
