#!/usr/bin/env python3
"""Regenerates MANIFEST.json from the table below (kept valid against /root/.vp/MANIFEST.schema.json)."""
import json, os
HERE = os.path.dirname(os.path.dirname(os.path.abspath(__file__)))
props = [json.loads(l) for l in open(os.path.join(HERE, "properties.jsonl"))]

# id -> (technique, level text, level_note, design_ref)
CLAIMED = {
 "C17": ("CrossHair (z3) symbolic execution of the real CaseInsensitiveOrderedDict: one inductive step per operation from every reachable 3-key state vs a reference model",
         "Bounded symbolic execution: every dict operation from every reachable state over a 4-key/4-spelling alphabet (symbolic values, order, presence, factory) equals an OrderedDict-on-lower-cased-keys model, representation invariant included; histories of any length follow by induction over the step.",
         "Trusted: CPython's OrderedDict, CrossHair/z3. Keys are realised by hashing, so the key/order space is enumerated by solver case splits; values stay symbolic (pickle: concrete values).", "§4 C17"),
 "C18": ("CrossHair (z3) symbolic execution of the real dictutils.update/find/findall/findunique/findkey against reference models written from the property statement",
         "Bounded symbolic execution: update() over every combination of patch-shape tags (scalar / '__delete__' / nested dict / list with None, deletions, appends; both overwrite modes) with symbolic leaves equals the reference merge and leaves the patch unchanged; find/findall/findunique/findkey on 3 items with symbolic presence, symbolic string values (len<=2) and queries equal the reference and leave items unchanged.",
         "Trusted: CrossHair/z3. Shapes bounded (3 items, depth 3); statement-silent corners (deleting absent objects via dict marker, None beyond list end, empty lists) are not asserted.", "§4 C18"),
 "C03": ("CrossHair (z3) symbolic execution of the real PrettyPrinter._format/format_value/Quoter on dicts built per schema slot group, symbolic values, full line list vs a rendering rule written from the property statement",
         "Bounded symbolic execution: for every object type and every keyword slot group regenerated from schemas/*.json (quick: one keyword per distinct schema shape + every special-cased name; thorough: all keywords) the printed line list equals the lexical-class rule (strings quoted, enum words bare upper-case, numbers/booleans bare, bindings/expressions/regex(/i)/lists bare), hidden keys never printed, empty auto-created dict values refused with ValueError.",
         "Trusted: CrossHair/z3; string holes <=3 (quick) / <=5 (thorough) code points 32..0x2FFF without quotes/backslash; strings that look like expressions in multi-alternative keywords are outside (documented). The independent reader of the lexical classes is the scanner model of C05.", "§4 C03"),
 "C09": ("CrossHair (z3) symbolic execution of the real Validator version filter with a symbolic float version on the real expanded schemas, vs the statement's range filter; acceptance decided by the real jsonschema on the really pruned entry; two-call cache histories vs a fresh Validator",
         "Bounded symbolic execution: is_valid_for_version for symbolic bounds; get_versioned_properties on each real object schema for every version in (3,9) equals the min<=v<=max filter at every depth and in every alternative list; each annotated entry is accepted iff in range; a second call on a used Validator equals a fresh one for every pair of versions from {None,6.0,7.6,8.0}.",
         "Trusted: jsonschema/jsonref, CrossHair/z3 (floats as reals). Histories of length 2; jsonref.load stubbed by a resolved deep copy in the history obligations; quick covers 7 object schemas, thorough all 19.", "§4 C09"),
 "C07": ("CrossHair (z3) symbolic execution of the real Validator.validate/_get_errors/create_message + jsonschema on documents with symbolic leaves, vs a Draft-04 reference evaluator on the keyword's published sub-schema",
         "Bounded symbolic execution: for every object type, numeric keywords (symbolic ints / boundary floats), number lists (symbolic length and element), enumerated keywords (spellings, near misses, wrong types), assorted wrong-typed values, unknown / hidden / upper-case / missing-required keywords in Mapfile and plain dicts, lists of roots, and nested documents with faults at symbolic list indices: zero messages iff the reference accepts, every message names the offending keyword or the enclosing object, reported positions are the keyword's / the block opener's, no exception escapes.",
         "Trusted: jsonschema/referencing, CrossHair/z3. json.dumps/loads inside mappyfile.validator are stubbed by the identity. Quick: one keyword per distinct schema shape; thorough: every keyword. `pattern` only on concrete strings.", "§4 C07"),
 "C15": ("CrossHair (z3) symbolic execution of the real Parser.load_includes/_get_include_filename/parse with open_file and os.getcwd stubbed, vs a reference textual substitution; expand_includes=False through the template-symbolic pipeline",
         "Bounded symbolic execution: include-tree shape (which lines are directives, which of 6 relative/absolute names, nesting) symbolic per directive spelling (keyword case, leading blanks, quote style, trailing comment, CRLF: generator-enumerated covering set); chain depth 0..8 and cycles (expands iff <= 5); root directory / cwd / relative-vs-absolute resolution; missing file -> IOError; kept directives with symbolic names printed back unchanged.",
         "Decided against the stubbed contract of open_file (returns text or raises IOError) and os.getcwd; real files / directories / process cwd are outside (I/O).", "§4 C15"),
 "C16": ("CrossHair (z3) symbolic execution of the real PrettyPrinter on a document covering every block kind with symbolic leaves, line list vs a layout written from the statement; compute_aligned_max_indent translated from its AST to QF_BV/FP SMT (z3)",
         "Bounded symbolic execution + SMT lemma: for indent in {0,1,4} (quick) / 0..8 (thorough) x align_values x end_comment x spacer x quote, the complete line list of a document with object blocks, key-value blocks, PROJECTION, POINTS x1/x2, PATTERN, CONFIG, repeated keys and nested object lists equals depth x indent x spacer indentation, END at the opener's depth, `END # TYPE` iff end_comment, values aligned at the first multiple of indent past the longest simple keyword; text == newlinechar.join(lines); alignment arithmetic unsat for key length <= 1023, indent <= 64 with IEEE-754 division.",
         "Option values are enumerated by the generator, leaves are symbolic. Layout code does not branch on content beyond block kind, so the cover document stands for others (argued, not checked). Multi-line strings and comments excepted.", "§4 C16"),
 "C20": ("CrossHair (z3) symbolic execution of the real utils front ends and click callbacks with the core workers replaced by recorders; the sys.exit expression of `mappyfile validate` translated from the AST to SMT (z3 Int)",
         "Bounded symbolic execution + SMT lemma: open/load/loads hand the core the same symbolic text and options; dumps/dump/save hand the printer the same seven options and return/write the same string; `format` == save(open(IN,...), OUT, decoded options); `schema` writes the sorted JSON of get_versioned_schema(version); `validate` echoes one line per message and exits with e(problems) where problems counts messages and unparseable files (<= 3 files, <= 4 messages each), and for every n in [0, 2^40) the status byte of e(n) is 0 iff n == 0 and equals n when n <= 255.",
         "Recorders stand for Parser.parse / MapfileToDict / PrettyPrinter / codecs.open / click.echo / glob. UTF-8 codec fidelity through real files and the CLI as an OS process are outside (only counterexample replays run the real CLI).", "§4 C20"),
 "C01": ("Template-symbolic pipeline under CrossHair (z3): the real scanner runs concretely on a skeleton, hole tokens get symbolic values of the same lexical class, the real Parser.parse loop, LALR tables, transformer and printer run symbolically; printed lines vs witness rendering, re-parse, second pass; witness base case through the public API",
         "Bounded symbolic execution: 3 structural skeletons + one schema-generated skeleton per object type (every simple keyword slot, string slots as symbolic holes): for every hole content of the class the printed lines are the witness rendering with the values substituted, the printed token stream parses back to the same content, and a second formatting pass gives the same lines.",
         "Hole classes: 2 (quick) / 4 (thorough) code points 32..0x2FFF without quotes/backslash, not starting with '#', not looking like an expression in multi-alternative keywords, not an enumerated word; numbers and enum words concrete. Substitution of token values is justified by the scanner lemmas of C05. Known finding KF-C01-TRAILING-BACKSLASH is outside the hole class.", "§4 C01"),
 "C02": ("Template-symbolic pipeline under CrossHair (z3): the real scanner runs concretely on a skeleton, hole tokens get symbolic values of the same lexical class, the real Parser.parse loop, LALR tables, transformer and printer run symbolically; complete dict vs an expected structure committed in the check (docs/transformer.rst)",
         "Bounded symbolic execution: 4 structural skeletons (types, plural lists / singletons, repeated keywords, duplicate keys, key-value blocks, CONFIG, PROJECTION, POINTS x1/x2, PATTERN, several roots, SYMBOLSET, bindings, hex colours, booleans, numbers): the whole dictionary, key order included, equals the committed expectation with the symbolic contents exactly at their places.",
         "String contents / attribute names symbolic (2 / 4 code points); numeric, boolean and hex-colour tokens concrete. The symbolic block-nesting family over the LALR automaton is C19's.", "§4 C02"),
 "C04": ("Template-symbolic pipeline under CrossHair (z3): the real scanner runs concretely on a skeleton, hole tokens get symbolic values of the same lexical class, the real Parser.parse loop, LALR tables, transformer and printer run symbolically on already formatted skeletons under several formatter option sets; Quoter projections by plain CrossHair",
         "Bounded symbolic execution: for 3 skeletons x 4 (quick) / 6 (thorough) option sets, print(parse(formatted)) == formatted line for line for every hole content, second parse same content; escape_quotes / standardise_quotes idempotent on all strings of <= 4 / 6 code points.",
         "Same hole classes as C01. Determinism of repeated printer runs is asserted in C16-JOIN.", "§4 C04"),
 "C08": ("Template-symbolic pipeline under CrossHair (z3): the real scanner runs concretely on a skeleton, hole tokens get symbolic values of the same lexical class, the real Parser.parse loop, LALR tables, transformer and printer run symbolically with symbolic token positions; error locations through C07's harnesses",
         "Bounded symbolic execution: 33 tokens of a skeleton covering object blocks, simple / multi-valued attributes, repeated keys, CONFIG, PROJECTION, key-value blocks, POINTS x2, PATTERN, bindings and two roots get free symbolic (line, column); every recorded __position__ entry is the position of its keyword token, value positions in source order; message locations (keyword's, or block opener's for object-level errors) at symbolic list indices.",
         "Outside: lark's own line counter (tabs, CRLF, multi-line strings) - third-party scanner internals, trusted.", "§4 C08"),
 "C10": ("CrossHair (z3) on the real expression string builders (structural induction per rule; `expression` over all balanced operands up to a bound vs an explicit group counter) + Template-symbolic pipeline under CrossHair (z3): the real scanner runs concretely on a skeleton, hole tokens get symbolic values of the same lexical class, the real Parser.parse loop, LALR tables, transformer and printer run symbolically on expression skeletons vs committed normal forms",
         "Bounded symbolic execution: every builder keeps operands verbatim and in order with canonical AND/OR/NOT; the `expression` rule yields exactly one group containing the operand for every balanced operand over ( ) a of length <= 8 / 10 and over ( ) a \" of length <= 6 / 8; 11 expressions in FILTER / GROUP / EXPRESSION / TEXT / GEOMTRANSFORM positions with symbolic names and strings equal the committed normal forms, are printed verbatim and re-read to the same strings.",
         "Precedence/associativity over all operator pairs on the LALR table is argued from the grammar ladder and exercised by the skeletons; the E-LALR precedence queries of DESIGN §2.4 are not part of the registered check.", "§4 C10"),
 "C13": ("Template-symbolic pipeline under CrossHair (z3): the real scanner runs concretely on a skeleton, hole tokens get symbolic values of the same lexical class, the real Parser.parse loop, LALR tables, transformer and printer run symbolically: four real parser/transformer configurations (position x comments) on one parse input with symbolic string contents and comment texts",
         "Bounded symbolic execution: for 2 skeletons, plain / position / comments / both agree after stripping hidden keys (keys, order, values, types); positions are never printed; the comment configurations print exactly the plain lines plus the comment texts at the witness's line structure.",
         "Through open/load: same core call (C20). 2 code points per hole / comment.", "§4 C13"),
 "C14": ("Template-symbolic pipeline under CrossHair (z3): the real scanner runs concretely on a skeleton, hole tokens get symbolic values of the same lexical class, the real Parser.parse loop, LALR tables, transformer and printer run symbolically with symbolic comment texts through the real lexer callbacks, _assign_comments, CommentsTransformer and printer; full line list vs committed expectation",
         "Bounded symbolic execution: 12 comments (# and /* */) at the documented placements (file header, end of a simple keyword line, above object / METADATA / VALIDATION openers) with symbolic text: each is printed verbatim, exactly once, trailing comments on their keyword's line, block comments directly above their opener; content equals a plain load.",
         "Comment line numbers are those of the concrete skeleton. Placements the property marks as migrating/vanishing are not asserted.", "§4 C14"),
}
NA = {}

checks = []
for p in props:
    i = p["id"]
    if i in CLAIMED:
        tech, text, note, ref = CLAIMED[i]
        checks.append({
            "property_id": i,
            "quick_cmd": f"./vf check {i} --tier quick",
            "thorough_cmd": f"./vf check {i} --tier thorough",
            "evidence_file": f"evidence/{i}.json",
            "replay_cmd_template": "./vf replay {path}",
            "engine": "vf",
            "level_claimed": {"category": "other", "text": text, "design_ref": ref},
            "level_note": note,
            "technique": tech,
        })
na = [{"property_id": p["id"], "reason": NA.get(p["id"], "check not built yet in this session (solver-based kernels are designed in DESIGN.md §4); not claimed until its obligations are PROVED-IN-BOUND on the pinned tree")}
      for p in props if p["id"] not in CLAIMED]
m = {
 "version": 1,
 "setup_cmd": "./vf setup",
 "hooks": {"guard": "MAPPYFILE_VERIF", "enable": "none needed: hole lexer, stubs and recorders are installed from the harness side; checks import mappyfile from /repo's working tree",
           "baseline_off_cmd": "cd /repo && /venv/bin/python -m pytest -ra -q -p no:cacheprovider --timeout=900 --continue-on-collection-errors",
           "source_commits": [], "add_only": True},
 "engines": [
  {"name": "vf", "path": "engine/core.py", "serves_properties": sorted(CLAIMED), "kind_free_text": "obligation runner: CrossHair (z3) harnesses generated per run + z3/cvc5 queries generated from /repo's live objects; counterexample replay; known-findings matching"},
 ],
 "checks": checks,
 "not_applicable": na,
 "notes": "Solver-based checking only (CrossHair symbolic execution of the real functions; z3/cvc5 on encodings regenerated from /repo). See DESIGN.md.",
}
json.dump(m, open(os.path.join(HERE, "MANIFEST.json"), "w"), indent=1)
print("claimed", len(checks), "not_applicable", len(na))
